package headers

// Bounded stand-in for C10 (labelled bounded, never counted as proved): clean()/consolidate()/prune() rebuild the
// whole branch structure through storage and are outside the contract verifier's reach. This harness runs the REAL
// repository code (in-package, injected with `go test -overlay`, nothing is written into /repo) on every history of
// at most C10_N submitted headers - every choice of parent among the headers so far, two work levels - with the
// maintenance operation (consolidate + saveMainBranch + prune(depth) + saveInvalidHashes, i.e. clean() with a
// caller-chosen prune depth) inserted after every prefix, and compares everything the repository reports with a
// twin repository that received the same submissions and never ran maintenance.
//
// Bound: C10_N headers (default 5), prune depth C10_DEPTH (default 3), fork-depth limit C10_DEPTH-1, one or two maintenance points.

import (
	"context"
	"encoding/binary"
	"fmt"
	"os"
	"strconv"
	"strings"
	"testing"

	"github.com/tokenized/bitcoin_reader/internal/platform/tests"
	"github.com/tokenized/pkg/bitcoin"
	"github.com/tokenized/pkg/storage"
	"github.com/tokenized/pkg/wire"

	"github.com/pkg/errors"
)

const (
	c10EasyBits = uint32(0x1d00ffff)
	c10HardBits = uint32(0x1c7fffff) // about twice the work of an easy header
)

type c10Step struct {
	parent int  // index into the headers so far (0 = the initial tip)
	heavy  bool // more work than an easy header
}

func c10Env(name string, def int) int {
	if v, err := strconv.Atoi(os.Getenv(name)); err == nil {
		return v
	}
	return def
}

func c10NewRepo(maxBranchDepth int) *Repository {
	config := DefaultConfig()
	// the real configuration keeps the fork-depth limit (144) far below the prune depth (10000): a parent that
	// was pruned from memory is always deeper than a new branch may start. The same relation is kept here.
	config.MaxBranchDepth = maxBranchDepth
	repo := NewRepository(config, storage.NewMockStorage())
	repo.DisableDifficulty()
	repo.DisableSplitProtection()
	// the same first header in every repository (InitializeWithTimeStamp draws a random one)
	header := &wire.BlockHeader{Version: 1, Timestamp: 952644136, Bits: c10EasyBits, Nonce: 7}
	repo.longest, _ = NewBranch(nil, -1, header)
	repo.branches = Branches{repo.longest}
	return repo
}

// c10Maintain is clean() with a caller-chosen prune depth (the real one uses the constant 10000).
func c10Maintain(ctx context.Context, repo *Repository, depth int) error {
	repo.Lock()
	defer repo.Unlock()
	if err := repo.consolidate(ctx); err != nil {
		return errors.Wrap(err, "consolidate")
	}
	if err := repo.saveMainBranch(ctx); err != nil {
		return errors.Wrap(err, "save main branch")
	}
	if err := repo.prune(ctx, depth); err != nil {
		return errors.Wrap(err, "prune")
	}
	if err := saveInvalidHashes(ctx, repo.store, repo.invalidHashes); err != nil {
		return errors.Wrap(err, "invalid hashes")
	}
	return nil
}

func c10Describe(steps []c10Step, maintainAfter map[int]bool) string {
	var parts []string
	for i, s := range steps {
		w := "easy"
		if s.heavy {
			w = "heavy"
		}
		parts = append(parts, fmt.Sprintf("h%d:on=%d,%s", i+1, s.parent, w))
		if maintainAfter[i+1] {
			parts = append(parts, "CLEAN")
		}
	}
	return strings.Join(parts, " ")
}

// c10Compare returns the first difference between what the two repositories report.
func c10Compare(ctx context.Context, a, b *Repository, accepted []bitcoin.Hash32) string {
	ah, bh := a.LastHash(), b.LastHash()
	if !ah.Equal(&bh) {
		// two tips of equal accumulated work: the property does not say which one is reported (the choice
		// follows the branch order, which maintenance changes); the histories are no longer comparable
		if a.AccumulatedWork().Cmp(b.AccumulatedWork()) == 0 {
			return "TIE"
		}
		return fmt.Sprintf("LastHash %s (work %s) vs %s (work %s)", ah, a.AccumulatedWork().Text(16), bh, b.AccumulatedWork().Text(16))
	}
	if a.Height() != b.Height() {
		return fmt.Sprintf("Height %d vs %d", a.Height(), b.Height())
	}
	for h := 0; h <= b.Height(); h++ {
		x, errA := a.Hash(ctx, h)
		y, errB := b.Hash(ctx, h)
		if (errA == nil) != (errB == nil) {
			return fmt.Sprintf("Hash(%d) error %v vs %v", h, errA, errB)
		}
		if errB == nil && (x == nil) != (y == nil) {
			return fmt.Sprintf("Hash(%d) nil %v vs %v", h, x == nil, y == nil)
		}
		if errB == nil && y != nil && !x.Equal(y) {
			return fmt.Sprintf("Hash(%d) %s vs %s", h, x, y)
		}
		hx, errA := a.Header(ctx, h)
		hy, errB := b.Header(ctx, h)
		if (errA == nil) != (errB == nil) || (errB == nil && !hx.BlockHash().Equal(hy.BlockHash())) {
			return fmt.Sprintf("Header(%d) differs (%v vs %v)", h, errA, errB)
		}
	}
	for _, k := range accepted {
		if x, y := a.HashHeight(k), b.HashHeight(k); x != y {
			return fmt.Sprintf("HashHeight(%s) %d vs %d", k, x, y)
		}
		h1, l1, e1 := a.CheckHeader(ctx, k)
		h2, l2, e2 := b.CheckHeader(ctx, k)
		if (e1 == nil) != (e2 == nil) || h1 != h2 || l1 != l2 {
			return fmt.Sprintf("CheckHeader(%s) (%d,%v,%v) vs (%d,%v,%v)", k, h1, l1, e1, h2, l2, e2)
		}
		p1, ph1 := a.PreviousHash(k)
		p2, ph2 := b.PreviousHash(k)
		if (p1 == nil) != (p2 == nil) || ph1 != ph2 || (p1 != nil && !p1.Equal(p2)) {
			return fmt.Sprintf("PreviousHash(%s) (%v,%d) vs (%v,%d)", k, p1, ph1, p2, ph2)
		}
	}
	return ""
}

func c10Run(ctx context.Context, steps []c10Step, maintainAfter map[int]bool, depth int) string {
	a, b := c10NewRepo(depth-1), c10NewRepo(depth-1)
	tip := a.LastHash()
	hashes := []bitcoin.Hash32{tip}
	var accepted []bitcoin.Hash32
	for i, s := range steps {
		header := &wire.BlockHeader{Version: 1, PrevBlock: hashes[s.parent], Timestamp: 952644136 + uint32(600*(i+1)),
			Bits: c10EasyBits, Nonce: uint32(i + 1)}
		if s.heavy {
			header.Bits = c10HardBits
		}
		binary.LittleEndian.PutUint32(header.MerkleRoot[:], uint32(i+1))
		hashes = append(hashes, *header.BlockHash())
		errA := a.ProcessHeader(ctx, header)
		errB := b.ProcessHeader(ctx, header)
		if (errA == nil) != (errB == nil) {
			return fmt.Sprintf("step %d: verdict %v vs %v", i+1, errA, errB)
		}
		if errB == nil {
			accepted = append(accepted, *header.BlockHash())
		}
		if d := c10Compare(ctx, a, b, accepted); d == "TIE" {
			return ""
		} else if d != "" {
			return fmt.Sprintf("after step %d: %s", i+1, d)
		}
		if maintainAfter[i+1] {
			if err := c10Maintain(ctx, a, depth); err != nil {
				return fmt.Sprintf("maintenance after step %d failed: %s", i+1, err)
			}
			if d := c10Compare(ctx, a, b, accepted); d == "TIE" {
				return "after maintenance following step " + fmt.Sprint(i+1) + ": the reported tip changed to another tip of equal work"
			} else if d != "" {
				return fmt.Sprintf("after maintenance following step %d: %s", i+1, d)
			}
		}
	}
	return ""
}

func Test_VerifBounded_C10(t *testing.T) {
	ctx := tests.Context()
	n := c10Env("C10_N", 5)
	depth := c10Env("C10_DEPTH", 3)
	two := c10Env("C10_TWO", 0) == 1
	out := os.Getenv("C10_OUT")
	runs, failures := 0, 0
	seen := map[string]bool{}
	var report []string
	steps := make([]c10Step, 0, n)
	var rec func()
	rec = func() {
		if len(steps) > 0 {
			k := len(steps)
			// maintenance after every prefix of this history (histories are enumerated with all their prefixes,
			// so only maintenance points that include a point in the last two positions are new)
			var sets []map[int]bool
			for p := 1; p <= k; p++ {
				sets = append(sets, map[int]bool{p: true})
				if two {
					for q := p + 1; q <= k; q++ {
						sets = append(sets, map[int]bool{p: true, q: true})
					}
				}
			}
			for _, m := range sets {
				runs++
				if d := c10Run(ctx, steps, m, depth); d != "" {
					failures++
					// report each distinct symptom once, with the shortest history that shows it
					key := d
					if i := strings.Index(d, ":"); i > 0 {
						key = strings.Fields(d[i+1:])[0]
						if j := strings.Index(key, "("); j > 0 {
							key = key[:j] // the lookup that differs, whatever its argument
						}
					}
					if !seen[key] {
						seen[key] = true
						report = append(report, fmt.Sprintf("%s || %s", c10Describe(steps, m), d))
					}
				}
			}
		}
		if len(steps) == n {
			return
		}
		for parent := 0; parent <= len(steps); parent++ {
			for _, heavy := range []bool{false, true} {
				steps = append(steps, c10Step{parent, heavy})
				rec()
				steps = steps[:len(steps)-1]
			}
		}
	}
	rec()
	summary := fmt.Sprintf("C10 bounded: n=%d depth=%d two=%v runs=%d failing=%d distinct=%d", n, depth, two, runs, failures, len(report))
	t.Log(summary)
	if out != "" {
		os.WriteFile(out, []byte(summary+"\n"+strings.Join(report, "\n")+"\n"), 0o644)
	}
	for _, r := range report {
		t.Errorf("DIFF %s", r)
	}
}
