package main

import (
	"encoding/json"
	"fmt"
	"go/types"
	"os"
	"regexp"
	"strconv"
	"strings"

	"golang.org/x/tools/go/ssa"
)

// Replay family "message-handler": a refuted obligation (no-panic, or the framing postcondition
// "consumed(r) == old(consumed(r)) + header.Length on success") of a message handler
//
//	func (n *BitcoinNode) handleX(ctx context.Context, header *wire.MessageHeader, r io.Reader) error
//
// The solver's model fixes the function, the obligation and (when the model gives the heap cell in a readable
// form) the declared payload length. Byte values of the stream are not part of the model (streams are modelled by
// their length only), so the replay completes the input by a small search: the model's length first, then a few
// other lengths, each with four fill bytes, on a node before and after accept(). Every candidate is run against the
// real handler on a real BitcoinNode (mock header repository, mock storage) from an in-package test injected with
// `go test -overlay`; the replay is confirmed when a call panics (no-panic obligations) or returns nil having
// consumed a number of bytes different from the declared length (framing obligations). The replay file records the
// concrete header, payload and node state of the first failing candidate.

func init() {
	replayFamilies = append(replayFamilies, replayFamily{
		name: "message-handler",
		match: func(o *Obligation) bool {
			if o.Status != "sat" || o.Model == "" || !strings.Contains(o.Func, "BitcoinNode).handle") {
				return false
			}
			return o.Kind == "safe" || (o.Kind == "post" && strings.Contains(o.Name, "framing"))
		},
		run: replayHandler,
	})
}

var modelConstArrRe = regexp.MustCompile(`\(define-fun H\.F\.wire\.MessageHeader\.Length@0 \(\) \(Array Int Int\)\s+([^\n]*(?:\n\s+[^\n(d][^\n]*)*)`)
var modelHeaderRe = regexp.MustCompile(`\(define-fun p\.header \(\) Int\s+(\d+)\)`)

// modelHeaderLength reads header.Length at entry from a z3 model when the array is given as stores over a constant.
func modelHeaderLength(model string) (uint64, bool) {
	hm := modelHeaderRe.FindStringSubmatch(model)
	am := modelConstArrRe.FindStringSubmatch(model)
	if hm == nil || am == nil {
		return 0, false
	}
	body := am[1]
	// (store ... <ref> <val>) for the header reference wins, innermost constant otherwise
	storeRe := regexp.MustCompile(`\s` + hm[1] + `\s+(\d+)\)`)
	if sm := storeRe.FindAllStringSubmatch(body, -1); len(sm) > 0 {
		v, err := strconv.ParseUint(sm[len(sm)-1][1], 10, 64)
		return v, err == nil
	}
	constRe := regexp.MustCompile(`\(\(as const \(Array Int Int\)\) (\d+)\)`)
	if cm := constRe.FindStringSubmatch(body); cm != nil {
		v, err := strconv.ParseUint(cm[1], 10, 64)
		return v, err == nil
	}
	return 0, false
}

func replayHandler(p *Program, prop string, o *Obligation, replayPath string) bool {
	var fn *ssa.Function
	for f := range p.Cons.ByFunc {
		if shortName(f) == o.Func {
			fn = f
		}
	}
	if fn == nil || fn.Signature.Recv() == nil || fn.Pkg == nil || fn.Signature.Params().Len() != 3 {
		return false
	}
	sig := fn.Signature
	if sig.Params().At(0).Type().String() != "context.Context" || sig.Params().At(2).Type().String() != "io.Reader" {
		return false
	}
	if pt, ok := sig.Params().At(1).Type().(*types.Pointer); !ok || !strings.HasSuffix(pt.Elem().String(), "wire.MessageHeader") {
		return false
	}
	lengths := []uint64{}
	if l, ok := modelHeaderLength(o.Model); ok && l <= 1<<16 {
		lengths = append(lengths, l)
	}
	lengths = append(lengths, 0, 1, 2, 8, 12, 20, 30, 36, 81, 100, 1024)
	var ls []string
	for _, l := range lengths {
		ls = append(ls, fmt.Sprint(l))
	}
	wantPanic := o.Kind == "safe"
	src := fmt.Sprintf(`package %s

import (
	"bytes"
	"fmt"
	"io"
	"testing"
	"time"

	"github.com/tokenized/bitcoin_reader/internal/platform/tests"
	"github.com/tokenized/pkg/bitcoin"
	"github.com/tokenized/pkg/storage"
	"github.com/tokenized/pkg/wire"
)

type verifCountingReader struct {
	r io.Reader
	n uint64
}

func (c *verifCountingReader) Read(p []byte) (int, error) {
	k, err := c.r.Read(p)
	c.n += uint64(k)
	return k, err
}

func Test_VerifReplay(t *testing.T) {
	ctx := tests.Context()
	wantPanic := %v
	for _, length := range []uint64{%s} {
		for _, fill := range []byte{0x00, 0x01, 0x61, 0xff} {
			for _, ready := range []bool{true, false} {
				node := NewBitcoinNode("127.0.0.1:8333", "/verif/", &Config{Network: bitcoin.MainNet},
					NewMockHeaderRepository(), NewPeerRepository(storage.NewMockStorage(), ""))
				node.outgoingMsgChannel.Open(1000)
				if ready {
					if err := node.accept(ctx); err != nil {
						continue
					}
				}
				header := &wire.MessageHeader{Length: length}
				cr := &verifCountingReader{r: bytes.NewReader(bytes.Repeat([]byte{fill}, int(length)+4096))}
				type outcome struct {
					err      error
					panicked interface{}
				}
				done := make(chan outcome, 1)
				go func() {
					var out outcome
					defer func() {
						if r := recover(); r != nil {
							out.panicked = r
						}
						done <- out
					}()
					out.err = node.%s(ctx, header, cr)
				}()
				select {
				case out := <-done:
					desc := fmt.Sprintf("%s(ctx, &wire.MessageHeader{Length: %%d}, <%%d bytes of 0x%%02x>) on a node with ready=%%v", length, int(length)+4096, fill, ready)
					if out.panicked != nil && wantPanic {
						fmt.Println("REPLAY-VIOLATION: panic:", out.panicked, "in", desc)
						return
					}
					if out.panicked == nil && !wantPanic && out.err == nil && cr.n != length {
						fmt.Println("REPLAY-VIOLATION: returned nil having consumed", cr.n, "bytes of a message of", length, "bytes:", desc)
						return
					}
				case <-time.After(3 * time.Second):
				}
			}
		}
	}
	fmt.Println("REPLAY-OK: no candidate input failed")
}
`, fn.Pkg.Pkg.Name(), wantPanic, strings.Join(ls, ", "), fn.Name(), fn.Name())
	confirmed, out := runReplayTest(p, fn, src, "REPLAY-VIOLATION:")
	rec := map[string]interface{}{}
	if data, err := os.ReadFile(replayPath); err == nil {
		json.Unmarshal(data, &rec)
	}
	line := ""
	for _, l := range strings.Split(out, "\n") {
		if strings.HasPrefix(l, "REPLAY-") {
			line = l
		}
	}
	rec["replay"] = map[string]interface{}{"family": "message-handler", "search": "model length first, then lengths " + strings.Join(ls, ",") + " x fill bytes 00,01,61,ff x ready true,false",
		"failing_call": line, "go_test": src, "output": out, "confirmed_on_real_code": confirmed}
	if data, err := json.MarshalIndent(rec, "", " "); err == nil {
		os.WriteFile(replayPath, data, 0o644)
	}
	return confirmed
}
