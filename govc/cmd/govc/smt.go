package main

import (
	"fmt"
	"go/types"
	"regexp"
	"strings"
	"sync"
)

type splitCand struct {
	term string
	tag  int   // block that defines it
	both []int // for branch conditions: the two successor blocks (split only if both can reach the obligation)
}

// Sort is an SMT sort name: "Int", "Bool", "Slice" or a struct datatype name.
type Sort string

const (
	SInt   Sort = "Int"
	SBool  Sort = "Bool"
	SSlice Sort = "Slice"
)

// Val is a symbolic value: an SMT term with its sort and Go type, or an interior pointer (Loc), or a tuple.
type Val struct {
	T       string
	S       Sort
	Typ     types.Type
	Loc     *Loc
	Tup     []Val
	ArrView string // for x[:] of an array kept as one opaque value: that value (used by bytes.Equal)
}

func (v Val) isLoc() bool { return v.Loc != nil }

// VC is the verification-condition context of one function: declarations, background assertions in generation
// order and the obligations, each of which may use the assertions emitted before it.
type VC struct {
	prog       *Program
	decls      []string
	declSet    map[string]bool
	dtDecls    []string // datatype declarations (must precede everything)
	dtSet      map[string]bool
	asserts    []string
	tags       []int // top-level block that generated each assertion (-1: global)
	curTag     int
	reachTo    map[int]map[int]bool // block -> set of blocks that can reach it in the cut DAG (incl. itself)
	obls       []*Obligation
	nfresh     int
	abbr       map[string]string // let-bound names of large specification-function arguments -> full term
	abbrActive int
	kinds      []byte // per assert: 0 ordinary, 'L' assumed lemma (used only by the light query)
	curKind    byte
	nPre       int // asserts [0,nPre) are typing facts of the parameters, axioms and the precondition
	hasLemmas  bool
	compTrace  map[string]bool // when non-nil: heap components read through compAt (reads-clause completeness check)
	warnings   []string
	strLits    map[string]string
	structs    map[string]*types.Struct // datatype name -> struct type
	ufuncs     map[string]bool
	trusted    map[string]bool // trusted-base notes actually used in this VC
	unfolded   map[string]bool
	splitCands []splitCand       // Boolean terms worth case-splitting on (append in-place flags, heavy branch conditions)
	frontier   map[string]string // heap component version -> allocation frontier its allocated cells are well typed for
}

type Obligation struct {
	Name     string
	Kind     string // post, pre, inv-entry, inv-preserve, frame, safe, lockinv, assert, vacuity
	Props    []string
	Func     string
	Guard    string // reach condition
	Goal     string
	NAsserts int // number of background assertions in scope
	vc       *VC
	// results
	Status     string // unsat (discharged), sat, unknown, timeout
	Solver     string
	Seconds    float64
	Model      string
	Expect     string // "" (must be unsat) or "sat" for vacuity canaries
	Agree      int
	Tag        int      // top-level block of the obligation (-1: whole function)
	MoreSplits []string // further candidates, used only to sub-divide a case that is not decided in time
	Splits     []string // Boolean terms to case-split on when the monolithic query is not decided quickly
	Cases      int
	caseMillis int64
	lightMode  bool
	Desc       string
}

func newVC(p *Program) *VC {
	return &VC{curTag: -1, prog: p, declSet: map[string]bool{}, dtSet: map[string]bool{}, strLits: map[string]string{},
		structs: map[string]*types.Struct{}, ufuncs: map[string]bool{}, trusted: map[string]bool{}, unfolded: map[string]bool{}, frontier: map[string]string{}}
}

func (vc *VC) warn(format string, args ...interface{}) {
	vc.warnings = append(vc.warnings, fmt.Sprintf(format, args...))
}

func (vc *VC) trust(note string) { vc.trusted[note] = true }

var identRe = regexp.MustCompile(`[^A-Za-z0-9_.!$@]`)

func smtIdent(s string) string {
	s = strings.ReplaceAll(s, "*", "ptr.")
	s = strings.ReplaceAll(s, "[]", "sl.")
	s = strings.ReplaceAll(s, "/", ".")
	s = identRe.ReplaceAllString(s, "_")
	return s
}

func (vc *VC) declare(name string, sort string) {
	if vc.declSet[name] {
		return
	}
	vc.declSet[name] = true
	vc.decls = append(vc.decls, fmt.Sprintf("(declare-const %s %s)", name, sort))
}

func (vc *VC) declareFun(name string, args []string, ret string) {
	if vc.declSet[name] {
		return
	}
	vc.declSet[name] = true
	vc.decls = append(vc.decls, fmt.Sprintf("(declare-fun %s (%s) %s)", name, strings.Join(args, " "), ret))
}

func (vc *VC) fresh(prefix string, sort string) string {
	vc.nfresh++
	n := fmt.Sprintf("%s!%d", smtIdent(prefix), vc.nfresh)
	vc.declare(n, sort)
	return n
}

func (vc *VC) assert(t string) {
	if t == "true" {
		return
	}
	if vc.abbrActive > 0 {
		// a fact emitted while a specification function's body is being translated lives outside the scope of the
		// function's let-bound argument names: use the full terms
		t = vc.expandAbbr(t)
	}
	vc.asserts = append(vc.asserts, t)
	vc.tags = append(vc.tags, vc.curTag)
	vc.kinds = append(vc.kinds, vc.curKind)
}

// assertGlobal adds a fact that does not belong to a program point (definitional axioms, typing closures of
// entry-state components, distinctness of literals): it is never sliced away.
func (vc *VC) assertGlobal(t string) {
	save := vc.curTag
	vc.curTag = -1
	vc.assert(t)
	vc.curTag = save
}

// assume adds a guarded assumption.
func (vc *VC) assume(guard, t string) {
	if t == "true" {
		return
	}
	vc.assert(mkImplies(guard, t))
}

func (vc *VC) oblige(o *Obligation) {
	o.NAsserts = len(vc.asserts)
	o.vc = vc
	o.Tag = vc.curTag
	// case-split candidates in scope, most recent first
	var anc map[int]bool
	if o.Tag >= 0 && vc.reachTo != nil {
		anc = vc.reachTo[o.Tag]
	}
	for i := len(vc.splitCands) - 1; i >= 0 && len(o.MoreSplits) < 3; i-- {
		c := vc.splitCands[i]
		if anc != nil && c.tag >= 0 && !anc[c.tag] {
			continue
		}
		if len(c.both) == 2 && anc != nil && !(anc[c.both[0]] && anc[c.both[1]]) {
			continue // the obligation lies on one side of this branch: the condition is implied by reachability
		}
		if len(o.Splits) < maxSplits {
			o.Splits = append(o.Splits, c.term)
		} else {
			o.MoreSplits = append(o.MoreSplits, c.term)
		}
	}
	vc.obls = append(vc.obls, o)
}

// ---------------------------------------------------------------------------------------------
// term constructors with light simplification

func mkAnd(ts ...string) string {
	var out []string
	for _, t := range ts {
		if t == "true" || t == "" {
			continue
		}
		if t == "false" {
			return "false"
		}
		out = append(out, t)
	}
	switch len(out) {
	case 0:
		return "true"
	case 1:
		return out[0]
	}
	return "(and " + strings.Join(out, " ") + ")"
}

func mkOr(ts ...string) string {
	var out []string
	for _, t := range ts {
		if t == "false" || t == "" {
			continue
		}
		if t == "true" {
			return "true"
		}
		out = append(out, t)
	}
	switch len(out) {
	case 0:
		return "false"
	case 1:
		return out[0]
	}
	return "(or " + strings.Join(out, " ") + ")"
}

func mkNot(t string) string {
	if t == "true" {
		return "false"
	}
	if t == "false" {
		return "true"
	}
	if strings.HasPrefix(t, "(not ") && balanced(t[5:len(t)-1]) {
		return t[5 : len(t)-1]
	}
	return "(not " + t + ")"
}

func balanced(s string) bool {
	d := 0
	for i, c := range s {
		if c == '(' {
			d++
		} else if c == ')' {
			d--
			if d < 0 {
				return false
			}
			if d == 0 && i != len(s)-1 {
				return false
			}
		} else if d == 0 && c == ' ' {
			return false
		}
	}
	return d == 0
}

func mkImplies(a, b string) string {
	if a == "true" || a == "" {
		return b
	}
	if b == "true" {
		return "true"
	}
	if a == "false" {
		return "true"
	}
	return "(=> " + a + " " + b + ")"
}

func mkEq(a, b string) string {
	if a == b {
		return "true"
	}
	return "(= " + a + " " + b + ")"
}

func mkIte(c, a, b string) string {
	if c == "true" {
		return a
	}
	if c == "false" {
		return b
	}
	if a == b {
		return a
	}
	return "(ite " + c + " " + a + " " + b + ")"
}

func isIntLit(s string) bool {
	if s == "" {
		return false
	}
	for i, c := range s {
		if c == '-' && i == 0 && len(s) > 1 {
			continue
		}
		if c < '0' || c > '9' {
			return false
		}
	}
	return true
}

func mkAdd(a, b string) string {
	if a == "0" {
		return b
	}
	if b == "0" {
		return a
	}
	// (+ off (- m off)) -> m
	if strings.HasPrefix(b, "(- ") && strings.HasSuffix(b, " "+a+")") && len(b) > len(a)+5 {
		inner := b[3 : len(b)-len(a)-2]
		if balancedTerm(inner) {
			return inner
		}
	}
	if isIntLit(a) && isIntLit(b) {
		var x, y int64
		fmt.Sscan(a, &x)
		fmt.Sscan(b, &y)
		if x > -1<<40 && x < 1<<40 && y > -1<<40 && y < 1<<40 {
			return intLit(x + y)
		}
	}
	return "(+ " + a + " " + b + ")"
}

func balancedTerm(s string) bool {
	if s == "" {
		return false
	}
	if s[0] != '(' {
		return !strings.ContainsAny(s, " ()")
	}
	return balanced(s)
}

func mkSub(a, b string) string {
	if b == "0" {
		return a
	}
	if a == b {
		return "0"
	}
	if isIntLit(a) && isIntLit(b) {
		var x, y int64
		fmt.Sscan(a, &x)
		fmt.Sscan(b, &y)
		if x > -1<<40 && x < 1<<40 && y > -1<<40 && y < 1<<40 {
			return intLit(x - y)
		}
	}
	return "(- " + a + " " + b + ")"
}

func intLit(x int64) string {
	if x < 0 {
		return fmt.Sprintf("(- %d)", -x)
	}
	return fmt.Sprintf("%d", x)
}

func bigLit(s string) string {
	if strings.HasPrefix(s, "-") {
		return "(- " + s[1:] + ")"
	}
	return s
}

func sel(a, i string) string { return "(select " + a + " " + i + ")" }
func sto(a, i, v string) string {
	return "(store " + a + " " + i + " " + v + ")"
}

func mkSlice(arr, off, ln, cp string) string {
	return "(mk-slice " + arr + " " + off + " " + ln + " " + cp + ")"
}

func proj(f, s string) string {
	// (s-arr (mk-slice a o l c)) -> a
	if strings.HasPrefix(s, "(mk-slice ") {
		parts := splitTop(s[1 : len(s)-1])
		if len(parts) == 5 {
			switch f {
			case "s-arr":
				return parts[1]
			case "s-off":
				return parts[2]
			case "s-len":
				return parts[3]
			case "s-cap":
				return parts[4]
			}
		}
	}
	return "(" + f + " " + s + ")"
}

// splitTop splits a space separated s-expression body at top level.
func splitTop(s string) []string {
	var out []string
	d := 0
	start := -1
	for i := 0; i < len(s); i++ {
		c := s[i]
		switch {
		case c == '(':
			if d == 0 && start < 0 {
				start = i
			}
			d++
		case c == ')':
			d--
		case c == ' ' && d == 0:
			if start >= 0 {
				out = append(out, s[start:i])
				start = -1
			}
		default:
			if start < 0 {
				start = i
			}
		}
	}
	if start >= 0 {
		out = append(out, s[start:])
	}
	return out
}

// ---------------------------------------------------------------------------------------------
// Go types -> sorts

func isOpaqueArray(t types.Type) bool {
	_, ok := t.Underlying().(*types.Array)
	return ok
}

var typeRegistry sync.Map // typeKey -> types.Type

// typeKey is a stable readable identifier for a type, used in heap component names.
func typeKey(t types.Type) string {
	k := typeKey0(t)
	typeRegistry.LoadOrStore(k, t)
	return k
}

func typeByKey(k string) types.Type {
	if v, ok := typeRegistry.Load(k); ok {
		return v.(types.Type)
	}
	return nil
}

func typeKey0(t types.Type) string {
	s := types.TypeString(t, func(p *types.Package) string {
		path := p.Path()
		path = strings.TrimPrefix(path, repoModule+"/")
		if path == repoModule {
			path = "bitcoin_reader"
		}
		path = strings.TrimPrefix(path, "github.com/tokenized/pkg/")
		return path
	})
	return smtIdent(s)
}

func (vc *VC) sortOf(t types.Type) Sort {
	switch u := t.Underlying().(type) {
	case *types.Basic:
		if u.Info()&types.IsBoolean != 0 {
			return SBool
		}
		return SInt
	case *types.Slice:
		return SSlice
	case *types.Struct:
		return vc.structSort(t)
	case *types.Tuple:
		return "Tuple"
	default:
		return SInt
	}
}

// structSort declares (once) the datatype of a struct type and returns its name.
func (vc *VC) structSort(t types.Type) Sort {
	st := t.Underlying().(*types.Struct)
	name := "S." + typeKey(t)
	if _, ok := t.(*types.Named); !ok {
		for n, s := range vc.structs {
			if types.Identical(s, st) {
				return Sort(n)
			}
		}
		name = fmt.Sprintf("S.anon%d", len(vc.dtSet))
	}
	if vc.dtSet[name] {
		return Sort(name)
	}
	vc.dtSet[name] = true
	vc.structs[name] = st
	var fields []string
	for _, f := range vc.fieldsOf(t) {
		fields = append(fields, fmt.Sprintf("(%s %s)", structProj(name, f.name), f.sort))
	}
	if len(fields) == 0 {
		fields = append(fields, fmt.Sprintf("(%s.pad Int)", name))
	}
	vc.dtDecls = append(vc.dtDecls, fmt.Sprintf("(declare-datatypes ((%s 0)) (((mk.%s %s))))", name, name, strings.Join(fields, " ")))
	return Sort(name)
}

type ghostField struct {
	name string
	sort Sort
}

// ghostFields: structs of the standard library that are modelled by ghost state instead of their real fields.
func ghostFields(t types.Type) []ghostField {
	switch typeKey(t) {
	case "sync.Mutex":
		return []ghostField{{"held", SInt}}
	case "sync.RWMutex":
		return []ghostField{{"held", SInt}}
	case "math.big.Int":
		return []ghostField{{"v", SInt}}
	case "sync.atomic.Value":
		return []ghostField{{"val", SInt}}
	}
	return nil
}

// isGhostStruct reports whether the struct's real fields are hidden behind ghost fields.
func isGhostStruct(t types.Type) bool { return len(ghostFields(t)) > 0 }

func structProj(dt string, fname string) string {
	return fmt.Sprintf("%s.%s", dt, smtIdent(fname))
}

// fieldInfo describes one modelled field of a struct type (typ is nil for ghost Int fields).
type fieldInfo struct {
	name string
	typ  types.Type
	sort Sort
}

func (vc *VC) fieldsOf(t types.Type) []fieldInfo {
	st := t.Underlying().(*types.Struct)
	var out []fieldInfo
	if isGhostStruct(t) {
		for _, g := range ghostFields(t) {
			out = append(out, fieldInfo{g.name, nil, g.sort})
		}
		return out
	}
	for i := 0; i < st.NumFields(); i++ {
		f := st.Field(i)
		name := f.Name()
		if name == "_" {
			name = fmt.Sprintf("_%d", i) // blank fields need distinct accessor names
		}
		out = append(out, fieldInfo{name, f.Type(), vc.sortOf(f.Type())})
	}
	return out
}

// zeroValue returns the SMT zero value of a Go type.
func (vc *VC) zeroValue(t types.Type) string {
	switch u := t.Underlying().(type) {
	case *types.Basic:
		if u.Info()&types.IsBoolean != 0 {
			return "false"
		}
		if u.Info()&types.IsString != 0 {
			return vc.strLit("")
		}
		return "0"
	case *types.Slice:
		return mkSlice("0", "0", "0", "0")
	case *types.Struct:
		dt := string(vc.sortOf(t))
		var parts []string
		for _, f := range vc.fieldsOf(t) {
			if f.typ == nil {
				parts = append(parts, "0")
			} else {
				parts = append(parts, vc.zeroValue(f.typ))
			}
		}
		if len(parts) == 0 {
			parts = append(parts, "0")
		}
		return "(mk." + dt + " " + strings.Join(parts, " ") + ")"
	case *types.Array:
		return "0" // the all-zero array value is the id 0 of its opaque sort
	default:
		return "0"
	}
}

func (vc *VC) strLit(s string) string {
	if n, ok := vc.strLits[s]; ok {
		return n
	}
	n := fmt.Sprintf("str!%d", len(vc.strLits))
	vc.strLits[s] = n
	vc.declare(n, "Int")
	vc.declareFun("strlen", []string{"Int"}, "Int")
	vc.assertGlobal(fmt.Sprintf("(= (strlen %s) %d)", n, len(s)))
	// pairwise distinct from earlier literals
	for o, on := range vc.strLits {
		if o != s {
			vc.assertGlobal(fmt.Sprintf("(distinct %s %s)", n, on))
		}
	}
	return n
}

// intRange returns the range constraint of an integer typed term, or "true".
func intRange(t types.Type, term string) string {
	b, ok := t.Underlying().(*types.Basic)
	if !ok {
		return "true"
	}
	switch b.Kind() {
	case types.Uint8:
		return fmt.Sprintf("(and (<= 0 %s) (< %s 256))", term, term)
	case types.Uint16:
		return fmt.Sprintf("(and (<= 0 %s) (< %s 65536))", term, term)
	case types.Uint32:
		return fmt.Sprintf("(and (<= 0 %s) (< %s 4294967296))", term, term)
	case types.Uint64, types.Uint, types.Uintptr:
		return fmt.Sprintf("(and (<= 0 %s) (< %s 18446744073709551616))", term, term)
	case types.Int8:
		return fmt.Sprintf("(and (<= (- 128) %s) (< %s 128))", term, term)
	case types.Int16:
		return fmt.Sprintf("(and (<= (- 32768) %s) (< %s 32768))", term, term)
	case types.Int32:
		return fmt.Sprintf("(and (<= (- 2147483648) %s) (< %s 2147483648))", term, term)
	case types.Int64, types.Int:
		return fmt.Sprintf("(and (<= (- 9223372036854775808) %s) (< %s 9223372036854775808))", term, term)
	}
	return "true"
}

// intBits returns (bits, signed) for integer kinds.
func intBits(t types.Type) (int, bool, bool) {
	b, ok := t.Underlying().(*types.Basic)
	if !ok {
		return 0, false, false
	}
	switch b.Kind() {
	case types.Uint8:
		return 8, false, true
	case types.Uint16:
		return 16, false, true
	case types.Uint32:
		return 32, false, true
	case types.Uint64, types.Uint, types.Uintptr:
		return 64, false, true
	case types.Int8:
		return 8, true, true
	case types.Int16:
		return 16, true, true
	case types.Int32:
		return 32, true, true
	case types.Int64, types.Int, types.UntypedInt:
		return 64, true, true
	}
	return 0, false, false
}

func pow2(n int) string {
	switch n {
	case 8:
		return "256"
	case 16:
		return "65536"
	case 32:
		return "4294967296"
	case 64:
		return "18446744073709551616"
	case 7:
		return "128"
	case 15:
		return "32768"
	case 31:
		return "2147483648"
	case 63:
		return "9223372036854775808"
	}
	r := "1"
	// small exponents
	v := int64(1)
	if n < 62 {
		for i := 0; i < n; i++ {
			v *= 2
		}
		return fmt.Sprintf("%d", v)
	}
	return r
}

// wrap applies the machine-integer wrap-around of type t to a mathematical term.
func wrapInt(t types.Type, term string) string {
	bits, signed, ok := intBits(t)
	if !ok {
		return term
	}
	if isIntLit(term) {
		return term
	}
	if !signed {
		return "(mod " + term + " " + pow2(bits) + ")"
	}
	// signed: ((x + 2^(n-1)) mod 2^n) - 2^(n-1)
	h := pow2(bits - 1)
	return "(- (mod (+ " + term + " " + h + ") " + pow2(bits) + ") " + h + ")"
}

// originID: pairwise distinct constants naming the function that created an error value (ghost).
func (vc *VC) originID(fn string) string {
	n := "origin." + smtIdent(fn)
	if !vc.declSet[n] {
		vc.declare(n, "Int")
		for o := range vc.ufuncs {
			if strings.HasPrefix(o, "origin.") {
				vc.assertGlobal("(distinct " + n + " " + o + ")")
			}
		}
		vc.ufuncs[n] = true
	}
	return n
}

const maxSplits = 6

var abbrRe = regexp.MustCompile(`l![A-Za-z0-9_]+![0-9]+`)

// expandAbbr replaces let-bound argument names by the terms they stand for (recursively).
func (vc *VC) expandAbbr(t string) string {
	for i := 0; i < 20 && strings.Contains(t, "l!"); i++ {
		changed := false
		t = abbrRe.ReplaceAllStringFunc(t, func(n string) string {
			if d, ok := vc.abbr[n]; ok {
				changed = true
				return d
			}
			return n
		})
		if !changed {
			break
		}
	}
	return t
}
