package main

import (
	"bytes"
	"context"
	"crypto/sha256"
	"encoding/hex"
	"fmt"
	"os"
	"os/exec"
	"path/filepath"
	"strings"
	"sync"
	"time"
)

const smtPrelude = `(set-option :produce-models true)
(set-logic ALL)
(declare-datatypes ((Slice 0)) (((mk-slice (s-arr Int) (s-off Int) (s-len Int) (s-cap Int)))))
`

// smtText renders the query of one obligation: background facts in scope, reachability, negated goal.
func (o *Obligation) smtText(withModel bool) string {
	var b strings.Builder
	b.WriteString(smtPrelude)
	vc := o.vc
	for _, d := range vc.dtDecls {
		b.WriteString(d)
		b.WriteByte('\n')
	}
	for _, d := range vc.decls {
		b.WriteString(d)
		b.WriteByte('\n')
	}
	for _, a := range vc.asserts[:o.NAsserts] {
		b.WriteString("(assert ")
		b.WriteString(a)
		b.WriteString(")\n")
	}
	if o.Guard != "" && o.Guard != "true" {
		b.WriteString("(assert " + o.Guard + ")\n")
	}
	b.WriteString("(assert (not " + o.Goal + "))\n")
	b.WriteString("(check-sat)\n")
	if withModel {
		b.WriteString("(get-model)\n")
	}
	return b.String()
}

type solverSpec struct {
	name string
	argv func(file string, timeoutS int, seed int) []string
}

var solvers = []solverSpec{
	{"z3-4.8.12", func(f string, t, seed int) []string {
		return []string{"z3", "-smt2", fmt.Sprintf("-T:%d", t), fmt.Sprintf("smt.random_seed=%d", seed), fmt.Sprintf("sat.random_seed=%d", seed), f}
	}},
	{"z3-5.1.0", func(f string, t, seed int) []string {
		return []string{"z3-new", "-smt2", fmt.Sprintf("-T:%d", t), fmt.Sprintf("smt.random_seed=%d", seed), fmt.Sprintf("sat.random_seed=%d", seed), f}
	}},
	{"cvc5-1.0", func(f string, t, seed int) []string {
		return []string{"cvc5", fmt.Sprintf("--tlimit=%d", t*1000), fmt.Sprintf("--seed=%d", seed), f}
	}},
}

type solveOpts struct {
	timeoutS int
	seed     int
	scratch  string
	workers  int
	allThree bool // thorough: ask every solver (stability report)
}

func runSolver(ctx context.Context, sp solverSpec, file string, opts solveOpts) (status string, out string, secs float64) {
	argv := sp.argv(file, opts.timeoutS, opts.seed)
	cctx, cancel := context.WithTimeout(ctx, time.Duration(opts.timeoutS+5)*time.Second)
	defer cancel()
	cmd := exec.CommandContext(cctx, argv[0], argv[1:]...)
	var buf bytes.Buffer
	cmd.Stdout = &buf
	cmd.Stderr = &buf
	start := time.Now()
	_ = cmd.Run()
	secs = time.Since(start).Seconds()
	out = buf.String()
	first := strings.TrimSpace(strings.SplitN(out, "\n", 2)[0])
	switch first {
	case "unsat", "sat", "unknown":
		return first, out, secs
	}
	if strings.Contains(first, "timeout") || cctx.Err() != nil {
		return "timeout", out, secs
	}
	if strings.HasPrefix(first, "(error") {
		return "error", out, secs
	}
	return "unknown", out, secs
}

// solve discharges one obligation with the portfolio: the first definite answer wins.
func (o *Obligation) solve(opts solveOpts, stats *solveStats) {
	text := o.smtText(false)
	h := sha256.Sum256([]byte(text))
	file := filepath.Join(opts.scratch, hex.EncodeToString(h[:8])+".smt2")
	if err := os.WriteFile(file, []byte(text), 0o644); err != nil {
		o.Status = "error"
		o.Model = err.Error()
		return
	}
	defer os.Remove(file)
	ctx, cancel := context.WithCancel(context.Background())
	defer cancel()
	want := "unsat"
	if o.Expect == "sat" {
		// vacuity canary: only a proof of unsatisfiability is bad news; do not spend time looking for a model
		vq := opts
		vq.timeoutS = 3
		st, _, secs := runSolver(ctx, solvers[0], file, vq)
		stats.add(solvers[0].name, secs)
		o.Status, o.Solver, o.Seconds = st, solvers[0].name, secs
		return
	}
	// first the cheap attempt with one solver, then race the rest
	order := []int{0, 1, 2}
	if opts.seed%2 == 1 {
		order = []int{1, 0, 2}
	}
	quick := opts
	if quick.timeoutS > 4 {
		quick.timeoutS = 4
	}
	st, out, secs := runSolver(ctx, solvers[order[0]], file, quick)
	stats.add(solvers[order[0]].name, secs)
	o.Seconds += secs
	if st == want || (want == "sat" && st == "unknown") {
		o.Status, o.Solver = st, solvers[order[0]].name
		if !opts.allThree {
			return
		}
	}
	type ans struct {
		st, out, name string
		secs          float64
	}
	ch := make(chan ans, 3)
	var wg sync.WaitGroup
	for _, i := range order {
		if i == order[0] && quick.timeoutS == opts.timeoutS {
			continue
		}
		wg.Add(1)
		go func(sp solverSpec) {
			defer wg.Done()
			s, ou, se := runSolver(ctx, sp, file, opts)
			ch <- ans{s, ou, sp.name, se}
		}(solvers[i])
	}
	go func() { wg.Wait(); close(ch) }()
	best := ans{st: st, out: out, name: solvers[order[0]].name}
	agree := 0
	if st == want {
		agree = 1
	}
	for a := range ch {
		stats.add(a.name, a.secs)
		o.Seconds += a.secs
		if a.st == want {
			agree++
			if best.st != want {
				best = a
			}
			if !opts.allThree {
				cancel()
			}
		} else if best.st != want {
			// prefer a definite wrong answer (sat with model) over unknown/timeout
			if a.st == "sat" || a.st == "unsat" {
				best = a
			} else if best.st != "sat" && best.st != "unsat" && a.st == "unknown" {
				best = a
			}
		}
	}
	o.Status, o.Solver = best.st, best.name
	o.Agree = agree
	if want == "sat" && best.st == "unknown" {
		o.Status = "unknown"
	}
	if o.Status != want && o.Expect == "" {
		// fetch a model from the z3 that said sat, else keep the raw output
		if best.st == "sat" {
			mt := o.smtText(true)
			mf := file + ".model.smt2"
			if os.WriteFile(mf, []byte(mt), 0o644) == nil {
				for _, sp := range solvers[:2] {
					s, ou, _ := runSolver(context.Background(), sp, mf, opts)
					if s == "sat" {
						o.Model = ou
						break
					}
				}
				os.Remove(mf)
			}
		}
		if o.Model == "" {
			o.Model = best.out
		}
	}
}

type solveStats struct {
	mu      sync.Mutex
	seconds map[string]float64
	queries map[string]int
}

func newSolveStats() *solveStats {
	return &solveStats{seconds: map[string]float64{}, queries: map[string]int{}}
}

func (s *solveStats) add(name string, secs float64) {
	s.mu.Lock()
	s.seconds[name] += secs
	s.queries[name]++
	s.mu.Unlock()
}

// solveAll runs the obligations on a worker pool.
func solveAll(obls []*Obligation, opts solveOpts, stats *solveStats) {
	var wg sync.WaitGroup
	ch := make(chan *Obligation)
	for i := 0; i < opts.workers; i++ {
		wg.Add(1)
		go func() {
			defer wg.Done()
			for o := range ch {
				o.solve(opts, stats)
			}
		}()
	}
	for _, o := range obls {
		ch <- o
	}
	close(ch)
	wg.Wait()
}
