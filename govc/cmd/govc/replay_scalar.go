package main

import (
	"encoding/json"
	"fmt"
	"go/types"
	"os"
	"os/exec"
	"path/filepath"
	"regexp"
	"strings"

	"golang.org/x/tools/go/ssa"
)

// Replay family "scalar-panic": a refuted no-panic obligation (kind safe) of a package-level function whose
// parameters are all integers, booleans, io.Reader or context.Context. The parameter values are read from the
// solver's model, the real function is called with them from an in-package test injected with `go test -overlay`
// (nothing is written into the repository), and the replay is confirmed when the call panics. An io.Reader
// parameter is fed 4096 zero bytes (the model's byte values are not modelled).

func init() {
	replayFamilies = append(replayFamilies, replayFamily{
		name: "stream-consumption",
		match: func(o *Obligation) bool {
			return o.Kind == "post" && o.Status == "sat" && o.Model != "" && consumedPostRe.MatchString(strings.TrimSpace(o.Desc))
		},
		run: replayConsumption,
	})
	replayFamilies = append(replayFamilies, replayFamily{
		name: "scalar-panic",
		match: func(o *Obligation) bool {
			return o.Kind == "safe" && o.Status == "sat" && o.Model != ""
		},
		run: replayScalarPanic,
	})
}

var modelIntRe = regexp.MustCompile(`\(define-fun (p\.[A-Za-z0-9_]+) \(\) (Int|Bool)\s+(\(- (\d+)\)|\d+|true|false)\)`)

func replayScalarPanic(p *Program, prop string, o *Obligation, replayPath string) bool {
	var fn *ssa.Function
	for f := range p.Cons.ByFunc {
		if shortName(f) == o.Func {
			fn = f
		}
	}
	if fn == nil || fn.Signature.Recv() != nil || fn.Pkg == nil {
		return false
	}
	vals := map[string]string{}
	for _, m := range modelIntRe.FindAllStringSubmatch(o.Model, -1) {
		v := m[3]
		if m[4] != "" {
			v = "-" + m[4]
		}
		vals[m[1]] = v
	}
	var args []string
	imports := map[string]bool{"fmt": true, "testing": true}
	for _, prm := range fn.Params {
		name := "p." + smtIdent(prm.Name())
		switch t := prm.Type().Underlying().(type) {
		case *types.Basic:
			v, ok := vals[name]
			if !ok {
				v = "0"
				if t.Info()&types.IsBoolean != 0 {
					v = "false"
				}
			}
			switch {
			case t.Info()&types.IsInteger != 0:
				args = append(args, fmt.Sprintf("%s(%s)", types.TypeString(prm.Type(), func(q *types.Package) string {
					if q == fn.Pkg.Pkg {
						return ""
					}
					return q.Name()
				}), v))
			case t.Info()&types.IsBoolean != 0:
				args = append(args, v)
			default:
				return false
			}
		case *types.Interface:
			switch prm.Type().String() {
			case "io.Reader":
				imports["bytes"] = true
				args = append(args, "bytes.NewReader(make([]byte, 4096))")
			case "context.Context":
				imports["context"] = true
				args = append(args, "context.Background()")
			default:
				return false
			}
		default:
			return false
		}
	}
	var imp []string
	for _, k := range sortedKeys(imports) {
		imp = append(imp, fmt.Sprintf("\t%q", k))
	}
	call := fn.Name() + "(" + strings.Join(args, ", ") + ")"
	src := fmt.Sprintf(`package %s

import (
%s
)

func Test_VerifReplay(t *testing.T) {
	defer func() {
		if r := recover(); r != nil {
			fmt.Println("REPLAY-PANIC:", r)
		}
	}()
	%s
	fmt.Println("REPLAY-NO-PANIC")
}
`, fn.Pkg.Pkg.Name(), strings.Join(imp, "\n"), call)
	rel := strings.TrimPrefix(strings.TrimPrefix(fn.Pkg.Pkg.Path(), repoModule), "/")
	if rel == "" {
		rel = "."
	}
	tmp, err := os.MkdirTemp(scratchBase(), "replay")
	if err != nil {
		return false
	}
	defer os.RemoveAll(tmp)
	testFile := filepath.Join(tmp, "zz_verif_replay_test.go")
	if os.WriteFile(testFile, []byte(src), 0o644) != nil {
		return false
	}
	dest := filepath.Join(p.RepoDir, rel, "zz_verif_replay_test.go")
	ov, _ := json.Marshal(map[string]map[string]string{"Replace": {dest: testFile}})
	ovFile := filepath.Join(tmp, "ov.json")
	os.WriteFile(ovFile, ov, 0o644)
	cmd := exec.Command("sh", "-c", fmt.Sprintf("ulimit -v 8000000; cd %q && go test -overlay %q -vet=off -count=1 -timeout 60s -v -run Test_VerifReplay ./%s", p.RepoDir, ovFile, rel))
	cmd.Env = append(os.Environ(), "GOFLAGS=-mod=mod", "GOPROXY=off", "GOSUMDB=off", "GOTOOLCHAIN=local")
	out, _ := cmd.CombinedOutput()
	confirmed := strings.Contains(string(out), "REPLAY-PANIC:") || strings.Contains(string(out), "panic:") || strings.Contains(string(out), "fatal error:")
	// extend the replay file with the concrete call and what happened
	rec := map[string]interface{}{}
	if data, err := os.ReadFile(replayPath); err == nil {
		json.Unmarshal(data, &rec)
	}
	outText := string(out)
	if len(outText) > 4000 {
		outText = outText[:4000]
	}
	rec["replay"] = map[string]interface{}{"family": "scalar-panic", "call": call, "go_test": src, "output": outText, "confirmed_on_real_code": confirmed}
	if data, err := json.MarshalIndent(rec, "", " "); err == nil {
		os.WriteFile(replayPath, data, 0o644)
	}
	return confirmed
}

// Replay family "stream-consumption": a refuted postcondition of the shape
//
//	result == nil ==> consumed(r) == old(consumed(r)) + E
//
// (E over the parameters) of a package-level function with one io.Reader parameter and otherwise integer, boolean or
// context parameters. The real function is called with the model's parameter values on a counting reader over zero
// bytes; the replay is confirmed when the call succeeds and the number of bytes it consumed differs from E.
var consumedPostRe = regexp.MustCompile(`^result\d? == nil ==> consumed\(r\) == old\(consumed\(r\)\) \+ (.+)$`)

func replayConsumption(p *Program, prop string, o *Obligation, replayPath string) bool {
	m := consumedPostRe.FindStringSubmatch(strings.TrimSpace(o.Desc))
	if m == nil {
		return false
	}
	expr := m[1]
	var fn *ssa.Function
	for f := range p.Cons.ByFunc {
		if shortName(f) == o.Func {
			fn = f
		}
	}
	if fn == nil || fn.Signature.Recv() != nil || fn.Pkg == nil {
		return false
	}
	vals := map[string]string{}
	for _, mm := range modelIntRe.FindAllStringSubmatch(o.Model, -1) {
		v := mm[3]
		if mm[4] != "" {
			v = "-" + mm[4]
		}
		vals[mm[1]] = v
	}
	qual := func(q *types.Package) string {
		if q == fn.Pkg.Pkg {
			return ""
		}
		return q.Name()
	}
	var decls, args []string
	readers := 0
	imports := map[string]bool{"fmt": true, "testing": true, "bytes": true, "io": true}
	for _, prm := range fn.Params {
		name := "p." + smtIdent(prm.Name())
		switch t := prm.Type().Underlying().(type) {
		case *types.Basic:
			v, ok := vals[name]
			if !ok {
				v = "0"
			}
			switch {
			case t.Info()&types.IsInteger != 0:
				if len(v) > 7 {
					return false // would need more input than a replay should allocate
				}
				decls = append(decls, fmt.Sprintf("%s := %s(%s)", prm.Name(), types.TypeString(prm.Type(), qual), v))
			case t.Info()&types.IsBoolean != 0:
				if !ok {
					v = "false"
				}
				decls = append(decls, fmt.Sprintf("%s := %s", prm.Name(), v))
			default:
				return false
			}
			decls = append(decls, "_ = "+prm.Name())
			args = append(args, prm.Name())
		case *types.Interface:
			switch prm.Type().String() {
			case "io.Reader":
				readers++
				args = append(args, "cr")
			case "context.Context":
				imports["context"] = true
				args = append(args, "context.Background()")
			default:
				return false
			}
		default:
			return false
		}
	}
	res := fn.Signature.Results()
	if readers != 1 || res.Len() == 0 || res.At(res.Len()-1).Type().String() != "error" {
		return false
	}
	var lhs []string
	for i := 0; i < res.Len()-1; i++ {
		lhs = append(lhs, "_")
	}
	lhs = append(lhs, "err")
	var imp []string
	for _, k := range sortedKeys(imports) {
		imp = append(imp, fmt.Sprintf("\t%q", k))
	}
	call := fn.Name() + "(" + strings.Join(args, ", ") + ")"
	src := fmt.Sprintf(`package %s

import (
%s
)

type verifCountingReader struct {
	r io.Reader
	n int
}

func (c *verifCountingReader) Read(p []byte) (int, error) {
	k, err := c.r.Read(p)
	c.n += k
	return k, err
}

func Test_VerifReplay(t *testing.T) {
	cr := &verifCountingReader{r: bytes.NewReader(make([]byte, 1<<21))}
	%s
	%s := %s
	want := uint64(%s)
	if err == nil && uint64(cr.n) != want {
		fmt.Println("REPLAY-VIOLATION: call succeeded, consumed", cr.n, "bytes, contract says", want)
	} else {
		fmt.Println("REPLAY-OK: consumed", cr.n, "want", want, "err", err)
	}
}
`, fn.Pkg.Pkg.Name(), strings.Join(imp, "\n"), strings.Join(decls, "\n\t"), strings.Join(lhs, ", "), call, expr)
	confirmed, out := runReplayTest(p, fn, src, "REPLAY-VIOLATION:")
	rec := map[string]interface{}{}
	if data, err := os.ReadFile(replayPath); err == nil {
		json.Unmarshal(data, &rec)
	}
	rec["replay"] = map[string]interface{}{"family": "stream-consumption", "call": call, "parameters": decls, "go_test": src, "output": out, "confirmed_on_real_code": confirmed}
	if data, err := json.MarshalIndent(rec, "", " "); err == nil {
		os.WriteFile(replayPath, data, 0o644)
	}
	return confirmed
}

// runReplayTest injects the generated in-package test with -overlay, runs it and looks for the marker.
func runReplayTest(p *Program, fn *ssa.Function, src, marker string) (bool, string) {
	rel := strings.TrimPrefix(strings.TrimPrefix(fn.Pkg.Pkg.Path(), repoModule), "/")
	if rel == "" {
		rel = "."
	}
	tmp, err := os.MkdirTemp(scratchBase(), "replay")
	if err != nil {
		return false, ""
	}
	defer os.RemoveAll(tmp)
	testFile := filepath.Join(tmp, "zz_verif_replay_test.go")
	if os.WriteFile(testFile, []byte(src), 0o644) != nil {
		return false, ""
	}
	dest := filepath.Join(p.RepoDir, rel, "zz_verif_replay_test.go")
	ov, _ := json.Marshal(map[string]map[string]string{"Replace": {dest: testFile}})
	ovFile := filepath.Join(tmp, "ov.json")
	os.WriteFile(ovFile, ov, 0o644)
	cmd := exec.Command("sh", "-c", fmt.Sprintf("ulimit -v 8000000; cd %q && go test -overlay %q -vet=off -count=1 -timeout 60s -v -run Test_VerifReplay ./%s", p.RepoDir, ovFile, rel))
	cmd.Env = append(os.Environ(), "GOFLAGS=-mod=mod", "GOPROXY=off", "GOSUMDB=off", "GOTOOLCHAIN=local")
	out, _ := cmd.CombinedOutput()
	text := string(out)
	found := strings.Contains(text, marker)
	if len(text) > 4000 {
		// keep the verdict lines, they may come after a lot of logging
		var keep []string
		for _, l := range strings.Split(text, "\n") {
			if strings.HasPrefix(l, "REPLAY-") {
				keep = append(keep, l)
			}
		}
		text = text[:4000] + "\n...\n" + strings.Join(keep, "\n")
	}
	return found, text
}
