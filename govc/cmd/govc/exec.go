package main

import (
	"fmt"
	"go/constant"
	"go/token"
	"go/types"
	"sort"
	"strings"

	"golang.org/x/tools/go/ssa"
)

// FnCtx is the symbolic execution context of one function body (the function under verification, or an
// inlined callee).
type FnCtx struct {
	vc     *VC
	prog   *Program
	fn     *ssa.Function
	con    *Contract // contract being verified (top level only)
	top    *FnCtx    // top-level context
	parent *FnCtx
	depth  int
	prefix string
	env    map[ssa.Value]Val
	cur    *State
	entry  *State // state at function entry (for old())

	blockExit      map[*ssa.BasicBlock]*State
	edgeCond       map[[2]int]string
	loopHeads      map[*ssa.BasicBlock]*loopInfo
	loopOrder      []*ssa.BasicBlock
	defers         []*deferRec
	locals         map[string]ssa.Value // source name -> latest DebugRef'd value (dominating, approximated)
	debugRefs      []*ssa.DebugRef
	exits          []*exitInfo
	activeLoops    []*loopInfo // loops whose body is currently executed (for write checks)
	curBlock       *ssa.BasicBlock
	safety         bool
	safetyTags     []string
	callCount      map[string]int
	oblCount       map[string]int
	lastCall       string
	letVals        map[string]Val
	paramVars      map[string]Val
	loopMisaligned bool        // the contract loop clauses do not match the loops of the function one to one
	readFails      [][2]string // (reader, failure flag) pairs of the reads(...) items of the contract call being applied
	lastSort       *sortInfo
	preDeferSite   string
	noClosure      bool
	lastReads      []string
}

type deferRec struct {
	instr *ssa.Defer
	block *ssa.BasicBlock
	args  []Val
	reach string
}

type exitInfo struct {
	state   *State
	results []Val
	block   *ssa.BasicBlock
	site    string
}

type loopInfo struct {
	head        *ssa.BasicBlock
	ordinal     int
	blocks      map[*ssa.BasicBlock]bool
	mods        map[string]bool // statically computed set of heap components the body may write
	modAll      bool
	modHeap     bool // the body may write any heap component except ghost (GH.*) and channel (CN.*, CL.*) state
	inState     *State
	inAlloc     string
	con         *LoopCon
	phiIn       map[*ssa.Phi]Val
	modRefs     map[string][]string // comp -> refs the loop may write below the entry frontier
	localAllocs []*ssa.Alloc
	readsAll    bool
}

type unsupported struct{ msg string }

func (u *unsupported) Error() string { return u.msg }

func unsupportedf(format string, a ...interface{}) error {
	return &unsupported{fmt.Sprintf(format, a...)}
}

func (fc *FnCtx) name(v ssa.Value) string {
	return "v." + fc.prefix + smtIdent(v.Name())
}

func (fc *FnCtx) noteWrite(comp string) {
	for c := fc; c != nil; c = c.parent {
		for _, l := range c.activeLoops {
			heapAll := (l.modHeap || (l.con != nil && l.con.ModHeap)) && !(strings.HasPrefix(comp, "GH.") || strings.HasPrefix(comp, "CN.") || strings.HasPrefix(comp, "CL."))
			if !l.modAll && !heapAll && !l.mods[comp] && comp != "alloc" {
				panic(unsupportedf("internal: component %s written inside loop %d of %s but not in its static modifies set", comp, l.ordinal, c.fn.Name()))
			}
		}
	}
}

// ---------------------------------------------------------------------------------------------
// values

func (fc *FnCtx) constVal(c *ssa.Const) (Val, error) {
	t := c.Type()
	if c.Value == nil {
		// zero value / nil
		return Val{T: fc.vc.zeroValue(t), S: fc.vc.sortOf(t), Typ: t}, nil
	}
	switch c.Value.Kind() {
	case constant.Bool:
		if constant.BoolVal(c.Value) {
			return Val{T: "true", S: SBool, Typ: t}, nil
		}
		return Val{T: "false", S: SBool, Typ: t}, nil
	case constant.Int:
		return Val{T: bigLit(c.Value.ExactString()), S: SInt, Typ: t}, nil
	case constant.String:
		return Val{T: fc.vc.strLit(constant.StringVal(c.Value)), S: SInt, Typ: t}, nil
	case constant.Float:
		if b, ok := t.Underlying().(*types.Basic); ok && b.Info()&types.IsInteger != 0 {
			return Val{T: bigLit(c.Value.ExactString()), S: SInt, Typ: t}, nil
		}
		n := "flt." + smtIdent(c.Value.ExactString())
		fc.vc.declare(n, "Int")
		return Val{T: n, S: SInt, Typ: t}, nil
	}
	return Val{}, unsupportedf("constant kind %v", c.Value.Kind())
}

func (fc *FnCtx) val(v ssa.Value) (Val, error) {
	switch x := v.(type) {
	case *ssa.Const:
		return fc.constVal(x)
	case *ssa.Global:
		t := x.Type().(*types.Pointer).Elem()
		return Val{Typ: x.Type(), Loc: &Loc{Kind: locGlobal, Comp: "G." + smtIdent(x.Pkg.Pkg.Path()+"."+x.Name()), Typ: t}}, nil
	case *ssa.Function:
		n := "fn." + smtIdent(x.String())
		if !fc.vc.declSet[n] {
			fc.vc.declare(n, "Int")
			a0 := baseName("alloc", 0)
			fc.vc.declare(a0, "Int")
			fc.vc.assertGlobal("(and (< 0 " + n + ") (<= " + n + " " + a0 + "))")
		}
		return Val{T: n, S: SInt, Typ: x.Type()}, nil
	case *ssa.Builtin:
		return Val{T: "0", S: SInt, Typ: x.Type()}, nil
	}
	if r, ok := fc.env[v]; ok {
		return r, nil
	}
	if fv, ok := v.(*ssa.FreeVar); ok {
		// closure free variable: opaque value of its type (well typed)
		r := fc.symbolic("fv."+fv.Name(), fv.Type())
		fc.env[v] = r
		return r, nil
	}
	return Val{}, unsupportedf("value %s (%T) used before definition in %s", v.Name(), v, fc.fn.Name())
}

// symbolic creates a fresh well-typed symbolic value of a Go type.
func (fc *FnCtx) symbolic(prefix string, t types.Type) Val {
	if tup, ok := t.(*types.Tuple); ok {
		var vs []Val
		for i := 0; i < tup.Len(); i++ {
			vs = append(vs, fc.symbolic(fmt.Sprintf("%s.%d", prefix, i), tup.At(i).Type()))
		}
		return Val{Tup: vs, Typ: t}
	}
	s := fc.vc.sortOf(t)
	n := fc.vc.fresh(prefix, string(s))
	fc.vc.assume(fc.cur.reach, fc.wellTyped(n, t, fc.alloc(), 0))
	return Val{T: n, S: s, Typ: t}
}

// define binds an SSA value to a term through a named constant.
func (fc *FnCtx) define(v ssa.Value, term string, t types.Type) Val {
	s := fc.vc.sortOf(t)
	if len(term) <= 24 && !strings.Contains(term, " ") {
		r := Val{T: term, S: s, Typ: t}
		fc.env[v] = r
		return r
	}
	n := fc.name(v)
	if fc.vc.declSet[n] {
		n = fc.vc.fresh(n, string(s))
	} else {
		fc.vc.declare(n, string(s))
	}
	fc.vc.assert(mkEq(n, term))
	r := Val{T: n, S: s, Typ: t}
	fc.env[v] = r
	return r
}

// ---------------------------------------------------------------------------------------------
// CFG analysis

func (fc *FnCtx) analyseLoops() error {
	fn := fc.fn
	fc.loopHeads = map[*ssa.BasicBlock]*loopInfo{}
	for _, b := range fn.Blocks {
		for _, s := range b.Succs {
			if s.Dominates(b) {
				li := fc.loopHeads[s]
				if li == nil {
					li = &loopInfo{head: s, blocks: map[*ssa.BasicBlock]bool{s: true}, mods: map[string]bool{}}
					fc.loopHeads[s] = li
				}
				// natural loop of back edge b -> s
				stack := []*ssa.BasicBlock{b}
				for len(stack) > 0 {
					x := stack[len(stack)-1]
					stack = stack[:len(stack)-1]
					if li.blocks[x] {
						continue
					}
					li.blocks[x] = true
					for _, p := range x.Preds {
						stack = append(stack, p)
					}
				}
			}
		}
	}
	// retreating edges that are not back edges => irreducible
	var heads []*ssa.BasicBlock
	for h := range fc.loopHeads {
		heads = append(heads, h)
	}
	sort.Slice(heads, func(i, j int) bool { return heads[i].Index < heads[j].Index })
	fc.loopOrder = heads
	for i, h := range heads {
		fc.loopHeads[h].ordinal = i + 1
	}
	return nil
}

func (fc *FnCtx) isBackEdge(from, to *ssa.BasicBlock) bool { return to.Dominates(from) }

// topoOrder returns the blocks in reverse post-order ignoring back edges.
func (fc *FnCtx) topoOrder() ([]*ssa.BasicBlock, error) {
	fn := fc.fn
	visited := map[*ssa.BasicBlock]int{}
	var post []*ssa.BasicBlock
	var irreducible bool
	var dfs func(b *ssa.BasicBlock)
	dfs = func(b *ssa.BasicBlock) {
		visited[b] = 1
		for _, s := range b.Succs {
			if fc.isBackEdge(b, s) {
				continue
			}
			if visited[s] == 1 {
				irreducible = true
				continue
			}
			if visited[s] == 0 {
				dfs(s)
			}
		}
		visited[b] = 2
		post = append(post, b)
	}
	dfs(fn.Blocks[0])
	if irreducible {
		return nil, unsupportedf("irreducible control flow in %s", fn.Name())
	}
	var order []*ssa.BasicBlock
	for i := len(post) - 1; i >= 0; i-- {
		order = append(order, post[i])
	}
	return order, nil
}

// ---------------------------------------------------------------------------------------------
// function body execution

// execBody symbolically executes the body from the given entry state with the given parameter values.
func (fc *FnCtx) execBody(entry *State, params []Val) (err error) {
	defer func() {
		if r := recover(); r != nil {
			if u, ok := r.(*unsupported); ok {
				err = u
				return
			}
			panic(r)
		}
	}()
	fn := fc.fn
	if len(fn.Blocks) == 0 {
		return unsupportedf("function %s has no body", fn.String())
	}
	if usesRecover(fn) {
		return unsupportedf("function %s uses recover", fn.String())
	}
	fc.env = map[ssa.Value]Val{}
	fc.blockExit = map[*ssa.BasicBlock]*State{}
	fc.edgeCond = map[[2]int]string{}
	fc.callCount = map[string]int{}
	if fc.oblCount == nil {
		fc.oblCount = map[string]int{}
	}
	fc.entry = entry.clone()
	for i, p := range fn.Params {
		fc.env[p] = params[i]
	}
	if fc.parent == nil && fc.con != nil {
		// ghost assignments on entry (after the entry snapshot that old() refers to)
		for _, gi := range fc.con.GhostIncs {
			fc.cur = entry
			se := fc.specEnv(fc.con.PkgPath, entry, entry)
			for k, v := range fc.paramVars {
				se.vars[k] = v
			}
			r, err := se.expr(gi.Ref)
			if err != nil {
				return fmt.Errorf("%s: ghostinc: %v", fc.con.Pos, err)
			}
			comp := "GH." + gi.Name
			oldT := fc.getComp(comp, arraySort("Int"))
			fc.setComp(comp, arraySort("Int"), sto(oldT, r.T, mkAdd(sel(oldT, r.T), "1")))
		}
	}
	if err := fc.analyseLoops(); err != nil {
		return err
	}
	order, err := fc.topoOrder()
	if err != nil {
		return err
	}
	for _, li := range fc.loopHeads {
		fc.computeLoopMods(li)
	}
	if fc.con != nil {
		fc.alignLoops()
	}
	if fc.parent == nil {
		// ancestors of every block in the cut DAG, for slicing the background facts of an obligation
		fc.vc.reachTo = map[int]map[int]bool{}
		for _, b := range order {
			set := map[int]bool{b.Index: true}
			for _, p := range b.Preds {
				if fc.isBackEdge(p, b) {
					continue
				}
				for k := range fc.vc.reachTo[p.Index] {
					set[k] = true
				}
			}
			fc.vc.reachTo[b.Index] = set
		}
	}
	for _, b := range order {
		fc.curBlock = b
		if fc.parent == nil {
			fc.vc.curTag = b.Index
		}
		// entry state of the block
		var st *State
		if b == fn.Blocks[0] {
			st = entry.clone()
		} else {
			var states []*State
			var conds []string
			var preds []*ssa.BasicBlock
			for _, p := range b.Preds {
				if fc.isBackEdge(p, b) {
					continue
				}
				ps, ok := fc.blockExit[p]
				if !ok {
					continue // unreachable predecessor (e.g. after panic)
				}
				states = append(states, ps)
				conds = append(conds, fc.edgeCond[[2]int{p.Index, b.Index}])
				preds = append(preds, p)
			}
			if len(states) == 0 {
				continue // unreachable block
			}
			st = fc.mergeStates(states, conds, fmt.Sprintf("%sb%d", fc.prefix, b.Index))
			// phis
			fc.cur = st
			li := fc.loopHeads[b]
			for _, ins := range b.Instrs {
				phi, ok := ins.(*ssa.Phi)
				if !ok {
					continue
				}
				var terms []string
				for _, p := range preds {
					for j, q := range b.Preds {
						if q == p {
							ev, err := fc.val(phi.Edges[j])
							if err != nil {
								return err
							}
							if ev.Loc != nil {
								mv, err := fc.materialize(ev)
								if err != nil {
									return err
								}
								ev = mv
							}
							terms = append(terms, ev.T)
							break
						}
					}
				}
				t := terms[len(terms)-1]
				for i := len(terms) - 2; i >= 0; i-- {
					t = mkIte(conds[i], terms[i], t)
				}
				if li != nil {
					if li.phiIn == nil {
						li.phiIn = map[*ssa.Phi]Val{}
					}
					li.phiIn[phi] = Val{T: t, S: fc.vc.sortOf(phi.Type()), Typ: phi.Type()}
				} else {
					fc.define(phi, t, phi.Type())
				}
			}
			if li != nil {
				if err := fc.enterLoop(li, st); err != nil {
					return err
				}
				st = fc.cur
			}
		}
		fc.cur = st
		// which loops is this block part of
		fc.activeLoops = nil
		for _, h := range fc.loopOrder {
			li := fc.loopHeads[h]
			if li.blocks[b] {
				fc.activeLoops = append(fc.activeLoops, li)
			}
		}
		terminated := false
		for _, ins := range b.Instrs {
			if _, ok := ins.(*ssa.Phi); ok {
				continue
			}
			done, err := fc.execInstr(ins)
			if err != nil {
				return err
			}
			if done {
				terminated = true
				break
			}
		}
		if terminated {
			continue
		}
		fc.blockExit[b] = fc.cur
		// back edges: invariant preservation
		for _, s := range b.Succs {
			if fc.isBackEdge(b, s) {
				if err := fc.backEdge(b, s); err != nil {
					return err
				}
			}
		}
	}
	return nil
}

func (fc *FnCtx) setEdges(b *ssa.BasicBlock, cond string) {
	r := fc.cur.reach
	switch len(b.Succs) {
	case 1:
		fc.edgeCond[[2]int{b.Index, b.Succs[0].Index}] = r
	case 2:
		fc.edgeCond[[2]int{b.Index, b.Succs[0].Index}] = mkAnd(r, cond)
		fc.edgeCond[[2]int{b.Index, b.Succs[1].Index}] = mkAnd(r, mkNot(cond))
	}
}

// ---------------------------------------------------------------------------------------------
// instructions

func (fc *FnCtx) execInstr(ins ssa.Instruction) (terminated bool, err error) {
	switch x := ins.(type) {
	case *ssa.DebugRef:
		fc.debugRefs = append(fc.debugRefs, x)
		return false, nil
	case *ssa.Alloc:
		return false, fc.execAlloc(x)
	case *ssa.FieldAddr:
		base, err := fc.val(x.X)
		if err != nil {
			return false, err
		}
		if base.Loc == nil {
			fc.safe("nil", mkNot(mkEq(base.T, "0")), "nil dereference in field address")
		}
		l, err := fc.fieldLoc(base, x.Field)
		if err != nil {
			return false, unsupportedf("%v", err)
		}
		fc.env[x] = Val{Typ: x.Type(), Loc: l}
		return false, nil
	case *ssa.Field:
		base, err := fc.val(x.X)
		if err != nil {
			return false, err
		}
		st := x.X.Type()
		dt := string(fc.vc.sortOf(st))
		f := fc.vc.fieldsOf(st)[x.Field]
		fc.define(x, "("+structProj(dt, f.name)+" "+base.T+")", x.Type())
		return false, nil
	case *ssa.IndexAddr:
		return false, fc.execIndexAddr(x)
	case *ssa.Index:
		base, err := fc.val(x.X)
		if err != nil {
			return false, err
		}
		idx, err := fc.val(x.Index)
		if err != nil {
			return false, err
		}
		switch bt := x.X.Type().Underlying().(type) {
		case *types.Array:
			fn := "arrat." + typeKey(x.X.Type())
			fc.vc.declareFun(fn, []string{"Int", "Int"}, fc.sortStr(x.Type()))
			fc.safe("index", fmt.Sprintf("(and (<= 0 %s) (< %s %d))", idx.T, idx.T, bt.Len()), "array index out of range")
			r := fc.define(x, "("+fn+" "+base.T+" "+idx.T+")", x.Type())
			fc.vc.assume(fc.cur.reach, fc.wellTyped(r.T, x.Type(), fc.alloc(), 0))
			return false, nil
		case *types.Basic: // string index
			fc.vc.declareFun("strat", []string{"Int", "Int"}, "Int")
			fc.safe("index", fmt.Sprintf("(and (<= 0 %s) (< %s (strlen %s)))", idx.T, idx.T, base.T), "string index out of range")
			r := fc.define(x, "(strat "+base.T+" "+idx.T+")", x.Type())
			fc.vc.assume(fc.cur.reach, intRange(x.Type(), r.T))
			return false, nil
		}
		return false, unsupportedf("Index on %s", x.X.Type())
	case *ssa.UnOp:
		return false, fc.execUnOp(x)
	case *ssa.BinOp:
		return false, fc.execBinOp(x)
	case *ssa.Store:
		addr, err := fc.val(x.Addr)
		if err != nil {
			return false, err
		}
		v, err := fc.val(x.Val)
		if err != nil {
			return false, err
		}
		l, err := fc.derefLoc(addr)
		if err != nil {
			return false, unsupportedf("%v", err)
		}
		if l.Kind == locConst {
			if len(l.Path) != 0 || v.Loc != nil {
				return false, unsupportedf("partial store into immutable local struct")
			}
			fc.env[x.Addr] = Val{Typ: x.Addr.Type(), Loc: &Loc{Kind: locConst, Ref: v.T, Typ: l.Typ}}
			return false, nil
		}
		if addr.Loc == nil {
			fc.safe("nil", mkNot(mkEq(addr.T, "0")), "nil dereference in store")
		}
		if l.Kind == locGlobal {
			fc.vc.warn("store to global %s", l.Comp)
		}
		if a, ok := x.Addr.(*ssa.Alloc); ok {
			if at, isArr := a.Type().(*types.Pointer).Elem().Underlying().(*types.Array); isArr && fc.arrayRegionMode(a) {
				// the region's elements are the bytes of the opaque value: E[ref][i] = arrat(v, i)
				fn := "arrat." + typeKey(a.Type().(*types.Pointer).Elem())
				es := fc.sortStr(at.Elem())
				fc.vc.declareFun(fn, []string{"Int", "Int"}, es)
				na := fc.vc.fresh("arrbytes", arraySort(es))
				fc.vc.nfresh++
				q := fmt.Sprintf("q!ab!%d", fc.vc.nfresh)
				fc.vc.assert("(forall ((" + q + " Int)) (! (= (select " + na + " " + q + ") (" + fn + " " + v.T + " " + q + ")) :pattern ((select " + na + " " + q + "))))")
				c := elemComp(at.Elem())
				srt := arraySort(arraySort(es))
				fc.setComp(c, srt, sto(fc.getComp(c, srt), addr.T, na))
			}
		}
		if ia, ok := x.Addr.(*ssa.IndexAddr); ok {
			if a, ok := ia.X.(*ssa.Alloc); ok {
				if _, isArr := a.Type().(*types.Pointer).Elem().Underlying().(*types.Array); isArr {
					// an element store makes the opaque whole-array value of this local arbitrary
					t := a.Type().(*types.Pointer).Elem()
					bc := boxComp(t)
					av, _ := fc.val(a)
					nv := fc.vc.fresh("arrval", "Int")
					fc.setComp(bc, arraySort("Int"), sto(fc.getComp(bc, arraySort("Int")), av.T, nv))
				}
			}
		}
		return false, fc.store(l, v)
	case *ssa.If:
		c, err := fc.val(x.Cond)
		if err != nil {
			return false, err
		}
		fc.setEdges(x.Block(), c.T)
		if fc.parent == nil && c.T != "true" && c.T != "false" && fc.heavyBranch(x.Block()) {
			b := x.Block()
			fc.vc.splitCands = append(fc.vc.splitCands, splitCand{term: c.T, tag: b.Index, both: []int{b.Succs[0].Index, b.Succs[1].Index}})
		}
		return false, nil
	case *ssa.Jump:
		fc.setEdges(x.Block(), "true")
		return false, nil
	case *ssa.Return:
		var rs []Val
		for _, r := range x.Results {
			v, err := fc.val(r)
			if err != nil {
				return false, err
			}
			if v.Loc != nil {
				mv, err := fc.materialize(v)
				if err != nil {
					return false, err
				}
				v = mv
			}
			rs = append(rs, v)
		}
		site := fc.siteDesc()
		if fc.preDeferSite != "" {
			site = fc.preDeferSite
			fc.preDeferSite = ""
		}
		fc.exits = append(fc.exits, &exitInfo{state: fc.cur, results: rs, block: x.Block(), site: site})
		return true, nil
	case *ssa.Panic:
		fc.safe("panic", "false", "explicit panic reachable")
		return true, nil
	case *ssa.Call:
		r, err := fc.execCall(x.Common(), x, x.Type())
		if err != nil {
			return false, err
		}
		if r != nil {
			fc.env[x] = *r
		}
		return false, nil
	case *ssa.Extract:
		t, err := fc.val(x.Tuple)
		if err != nil {
			return false, err
		}
		if x.Index >= len(t.Tup) {
			return false, unsupportedf("extract from non-tuple")
		}
		fc.env[x] = t.Tup[x.Index]
		return false, nil
	case *ssa.MakeSlice:
		return false, fc.execMakeSlice(x)
	case *ssa.Slice:
		return false, fc.execSlice(x)
	case *ssa.MakeMap:
		r := fc.newRef()
		mh, mv, ml := mapComps(x.Type())
		mt := x.Type().Underlying().(*types.Map)
		ks, vs := fc.sortStr(mt.Key()), fc.sortStr(mt.Elem())
		fc.setComp(mh, arraySort("(Array "+ks+" Bool)"), sto(fc.getComp(mh, arraySort("(Array "+ks+" Bool)")), r, "((as const (Array "+ks+" Bool)) false)"))
		fc.getComp(mv, arraySort("(Array "+ks+" "+vs+")"))
		fc.setComp(ml, arraySort("Int"), sto(fc.getComp(ml, arraySort("Int")), r, "0"))
		fc.env[x] = Val{T: r, S: SInt, Typ: x.Type()}
		return false, nil
	case *ssa.MapUpdate:
		return false, fc.execMapUpdate(x)
	case *ssa.Lookup:
		return false, fc.execLookup(x)
	case *ssa.MakeInterface:
		v, err := fc.val(x.X)
		if err != nil {
			return false, err
		}
		if v.Loc != nil {
			mv, err := fc.materialize(v)
			if err != nil {
				return false, err
			}
			v = mv
		}
		fc.vc.declareFun("typeOf", []string{"Int"}, "Int")
		tid := fc.typeID(x.X.Type())
		switch x.X.Type().Underlying().(type) {
		case *types.Pointer, *types.Map, *types.Chan, *types.Signature:
			fc.env[x] = Val{T: v.T, S: SInt, Typ: x.Type()}
			fc.vc.assume(fc.cur.reach, mkImplies(mkNot(mkEq(v.T, "0")), mkEq("(typeOf "+v.T+")", tid)))
		default:
			// boxed value: injective wrap per dynamic type
			wf := "wrap." + typeKey(x.X.Type())
			fc.vc.declareFun(wf, []string{string(v.S)}, "Int")
			uf := "unwrap." + typeKey(x.X.Type())
			fc.vc.declareFun(uf, []string{"Int"}, string(v.S))
			r := fc.define(x, "("+wf+" "+v.T+")", x.Type())
			fc.vc.assert(mkAnd(mkEq("(typeOf "+r.T+")", tid), "(< 0 "+r.T+")", mkEq("("+uf+" "+r.T+")", v.T)))
			fc.vc.assume(fc.cur.reach, "(<= "+r.T+" "+fc.alloc()+")")
		}
		return false, nil
	case *ssa.ChangeInterface:
		v, err := fc.val(x.X)
		if err != nil {
			return false, err
		}
		fc.env[x] = Val{T: v.T, S: SInt, Typ: x.Type()}
		return false, nil
	case *ssa.ChangeType:
		v, err := fc.val(x.X)
		if err != nil {
			return false, err
		}
		v.Typ = x.Type()
		fc.env[x] = v
		return false, nil
	case *ssa.Convert:
		return false, fc.execConvert(x)
	case *ssa.TypeAssert:
		return false, fc.execTypeAssert(x)
	case *ssa.MakeClosure:
		r := fc.newRef()
		fc.vc.declareFun("closureFn", []string{"Int"}, "Int")
		fv, _ := fc.val(x.Fn.(*ssa.Function))
		fc.vc.assert(mkEq("(closureFn "+r+")", fv.T))
		fc.env[x] = Val{T: r, S: SInt, Typ: x.Type()}
		return false, nil
	case *ssa.Defer:
		var args []Val
		for _, a := range x.Call.Args {
			v, err := fc.val(a)
			if err != nil {
				return false, err
			}
			args = append(args, v)
		}
		if x.Call.IsInvoke() {
			v, err := fc.val(x.Call.Value)
			if err != nil {
				return false, err
			}
			args = append([]Val{v}, args...)
		}
		for _, l := range fc.activeLoops {
			_ = l
			return false, unsupportedf("defer inside a loop")
		}
		fc.defers = append(fc.defers, &deferRec{instr: x, block: x.Block(), args: args, reach: fc.cur.reach})
		return false, nil
	case *ssa.RunDefers:
		return false, fc.runDefers(x)
	case *ssa.Go:
		fc.vc.trust("goroutines started by verified functions run concurrently; their effects are not part of the caller's contract")
		return false, nil
	case *ssa.Send:
		return false, fc.execSend(x)
	case *ssa.Select:
		return false, fc.execSelect(x)
	case *ssa.MakeChan:
		r := fc.newRef()
		sz, err := fc.val(x.Size)
		if err != nil {
			return false, err
		}
		fc.chanInit(r, sz.T)
		fc.env[x] = Val{T: r, S: SInt, Typ: x.Type()}
		fc.chanFact(fc.env[x], nil)
		return false, nil
	case *ssa.Range:
		v, err := fc.val(x.X)
		if err != nil {
			return false, err
		}
		fc.env[x] = Val{T: v.T, S: SInt, Typ: x.X.Type()}
		return false, nil
	case *ssa.Next:
		return false, fc.execNext(x)
	case *ssa.SliceToArrayPointer:
		return false, unsupportedf("slice to array pointer conversion")
	}
	return false, unsupportedf("instruction %T (%s) in %s", ins, ins, fc.fn.Name())
}

func (fc *FnCtx) typeID(t types.Type) string {
	n := "tid." + typeKey(t)
	if !fc.vc.declSet[n] {
		fc.vc.declare(n, "Int")
		if fc.vc.ufuncs == nil {
			fc.vc.ufuncs = map[string]bool{}
		}
		// pairwise distinct type ids
		for o := range fc.vc.ufuncs {
			if strings.HasPrefix(o, "tid.") {
				fc.vc.assertGlobal("(distinct " + n + " " + o + ")")
			}
		}
		fc.vc.ufuncs[n] = true
	}
	return n
}

// immutableLocalStruct: an allocated struct that is written exactly once as a whole and otherwise only read
// (the spilled copy of a value receiver or range variable). It is kept as a value, not as a heap object.
func immutableLocalStruct(x *ssa.Alloc) bool {
	t := x.Type().(*types.Pointer).Elem()
	if _, ok := t.Underlying().(*types.Struct); !ok || isGhostStruct(t) {
		return false
	}
	stores := 0
	for _, r := range *x.Referrers() {
		switch u := r.(type) {
		case *ssa.Store:
			if u.Addr != ssa.Value(x) || u.Val == ssa.Value(x) {
				return false
			}
			stores++
		case *ssa.UnOp:
			if u.Op != token.MUL {
				return false
			}
		case *ssa.DebugRef:
		case *ssa.FieldAddr:
			for _, fr := range *u.Referrers() {
				switch fu := fr.(type) {
				case *ssa.UnOp:
					if fu.Op != token.MUL {
						return false
					}
				case *ssa.DebugRef:
				case *ssa.Call:
					c := fu.Common()
					if c.IsInvoke() {
						return false
					}
					f, ok := c.Value.(*ssa.Function)
					if !ok || !readOnlyPtrFuncs[f.String()] {
						return false
					}
				case *ssa.FieldAddr:
					for _, fr2 := range *fu.Referrers() {
						if u2, ok := fr2.(*ssa.UnOp); !ok || u2.Op != token.MUL {
							if _, isDbg := fr2.(*ssa.DebugRef); !isDbg {
								return false
							}
						}
					}
				default:
					return false
				}
			}
		default:
			return false
		}
	}
	return stores == 1
}

// readOnlyPtrFuncs: modelled functions that only read through their pointer arguments.
var readOnlyPtrFuncs = map[string]bool{
	"(*github.com/tokenized/pkg/bitcoin.Hash32).Equal": true,
}

func (fc *FnCtx) execAlloc(x *ssa.Alloc) error {
	t := x.Type().(*types.Pointer).Elem()
	if immutableLocalStruct(x) {
		fc.env[x] = Val{Typ: x.Type(), Loc: &Loc{Kind: locConst, Ref: fc.vc.zeroValue(t), Typ: t}}
		return nil
	}
	r := fc.newRef()
	switch u := t.Underlying().(type) {
	case *types.Struct:
		l := &Loc{Kind: locObj, Ref: r, Typ: t}
		if err := fc.store(l, Val{T: fc.vc.zeroValue(t), S: fc.vc.sortOf(t), Typ: t}); err != nil {
			return err
		}
	case *types.Array:
		if fc.arrayRegionMode(x) {
			c := elemComp(u.Elem())
			es := fc.sortStr(u.Elem())
			srt := arraySort(arraySort(es))
			fc.setComp(c, srt, sto(fc.getComp(c, srt), r, "((as const (Array Int "+es+")) "+fc.vc.zeroValue(u.Elem())+")"))
			bc := boxComp(t)
			fc.setComp(bc, arraySort("Int"), sto(fc.getComp(bc, arraySort("Int")), r, fc.vc.zeroValue(t)))
		} else {
			c := boxComp(t)
			srt := arraySort("Int")
			fc.setComp(c, srt, sto(fc.getComp(c, srt), r, fc.vc.zeroValue(t)))
		}
	default:
		c := boxComp(t)
		srt := arraySort(fc.sortStr(t))
		fc.setComp(c, srt, sto(fc.getComp(c, srt), r, fc.vc.zeroValue(t)))
	}
	fc.env[x] = Val{T: r, S: SInt, Typ: x.Type()}
	return nil
}

// arrayRegionMode: an allocated array is modelled as an element region if it is indexed or sliced, and as
// one opaque value otherwise.
func (fc *FnCtx) arrayRegionMode(x *ssa.Alloc) bool {
	for _, r := range *x.Referrers() {
		switch u := r.(type) {
		case *ssa.IndexAddr:
			return true
		case *ssa.Slice:
			if !onlyComparedSlice(u) {
				return true
			}
		}
	}
	return false
}

// onlyComparedSlice: the slice x[:] is only passed to bytes.Equal (a whole-value comparison).
func onlyComparedSlice(s *ssa.Slice) bool {
	if s.Low != nil || s.High != nil || s.Max != nil {
		return false
	}
	for _, r := range *s.Referrers() {
		c, ok := r.(*ssa.Call)
		if !ok {
			if _, dbg := r.(*ssa.DebugRef); dbg {
				continue
			}
			return false
		}
		f, ok := c.Call.Value.(*ssa.Function)
		if !ok || f.String() != "bytes.Equal" {
			return false
		}
	}
	return true
}

func (fc *FnCtx) execIndexAddr(x *ssa.IndexAddr) error {
	base, err := fc.val(x.X)
	if err != nil {
		return err
	}
	idx, err := fc.val(x.Index)
	if err != nil {
		return err
	}
	switch bt := x.X.Type().Underlying().(type) {
	case *types.Slice:
		fc.safe("index", "(and (<= 0 "+idx.T+") (< "+idx.T+" "+proj("s-len", base.T)+"))", "slice index out of range")
		fc.env[x] = Val{Typ: x.Type(), Loc: &Loc{Kind: locElem, Comp: elemComp(bt.Elem()), Ref: proj("s-arr", base.T),
			Idx: mkAdd(proj("s-off", base.T), idx.T), Typ: bt.Elem()}}
		return nil
	case *types.Pointer:
		at, ok := bt.Elem().Underlying().(*types.Array)
		if !ok {
			return unsupportedf("IndexAddr on %s", x.X.Type())
		}
		if base.Loc != nil {
			return unsupportedf("IndexAddr on interior array pointer")
		}
		fc.safe("index", fmt.Sprintf("(and (<= 0 %s) (< %s %d))", idx.T, idx.T, at.Len()), "array index out of range")
		fc.env[x] = Val{Typ: x.Type(), Loc: &Loc{Kind: locElem, Comp: elemComp(at.Elem()), Ref: base.T, Idx: idx.T, Typ: at.Elem()}}
		return nil
	}
	return unsupportedf("IndexAddr on %s", x.X.Type())
}

func (fc *FnCtx) execUnOp(x *ssa.UnOp) error {
	v, err := fc.val(x.X)
	if err != nil {
		return err
	}
	switch x.Op {
	case token.MUL: // load
		l, err := fc.derefLoc(v)
		if err != nil {
			return unsupportedf("%v", err)
		}
		if v.Loc == nil {
			fc.safe("nil", mkNot(mkEq(v.T, "0")), "nil dereference in load")
		}
		if l.Kind == locGlobal {
			if g, ok := x.X.(*ssa.Global); ok && fc.prog.isImmutableGlobal(g) {
				return fc.loadImmutableGlobal(x, g)
			}
		}
		// (whole-array loads of region-modelled arrays read the opaque value kept in the box alongside the region)
		r, err := fc.load(l)
		if err != nil {
			return err
		}
		d := fc.define(x, r.T, x.Type())
		fc.vc.assume(fc.cur.reach, fc.wellTyped(d.T, x.Type(), fc.alloc(), 0))
		return nil
	case token.NOT:
		fc.define(x, mkNot(v.T), x.Type())
		return nil
	case token.SUB:
		fc.define(x, fc.arith(x.Type(), "(- "+v.T+")"), x.Type())
		return nil
	case token.XOR:
		fn := "bitnot." + typeKey(x.Type())
		fc.vc.declareFun(fn, []string{"Int"}, "Int")
		r := fc.define(x, "("+fn+" "+v.T+")", x.Type())
		fc.vc.assume(fc.cur.reach, intRange(x.Type(), r.T))
		return nil
	case token.ARROW:
		return fc.execRecv(x, v)
	}
	return unsupportedf("unary op %s", x.Op)
}

// loadImmutableGlobal: package variables that are never reassigned outside init are constants. Error
// sentinels are additionally non-nil and pairwise distinct.
func (fc *FnCtx) loadImmutableGlobal(x ssa.Value, g *ssa.Global) error {
	r := fc.globalConst(g)
	r.Typ = x.Type()
	fc.env[x] = r
	return nil
}

func (fc *FnCtx) globalConst(g *ssa.Global) Val {
	t := g.Type().(*types.Pointer).Elem()
	n := "glob." + smtIdent(g.Pkg.Pkg.Path()+"."+g.Name())
	s := fc.vc.sortOf(t)
	if !fc.vc.declSet[n] {
		fc.vc.declare(n, string(s))
		fc.vc.trust("package-level variables never stored to outside init are constants; error sentinels created by errors.New are non-nil and pairwise distinct")
		if isErrorType(t) {
			fc.vc.assertGlobal("(> " + n + " 0)")
			fc.vc.declareFun("cause", []string{"Int"}, "Int")
			fc.vc.assertGlobal(mkEq("(cause "+n+")", n))
			fc.vc.declareFun("uf.errOrigin", []string{"Int"}, "Int")
			fc.vc.assertGlobal(mkEq("(uf.errOrigin "+n+")", fc.vc.originID("package-level sentinel")))
			for o := range fc.vc.ufuncs {
				if strings.HasPrefix(o, "globerr.") {
					fc.vc.assertGlobal("(distinct " + n + " " + o[8:] + ")")
				}
			}
			fc.vc.ufuncs["globerr."+n] = true
		} else {
			// constants live below every allocation frontier
			fc.vc.assertGlobal(fc.wellTyped(n, t, baseName("alloc", 0), 0))
			fc.getCompIn(fc.topEntry(), "alloc", "Int")
		}
	}
	return Val{T: n, S: s, Typ: t}
}

func (fc *FnCtx) topEntry() *State {
	c := fc
	for c.parent != nil {
		c = c.parent
	}
	return c.entry
}

func (fc *FnCtx) getCompIn(st *State, comp, sort string) string {
	return fc.compAt(st, comp, sort)
}

func isErrorType(t types.Type) bool {
	n, ok := t.(*types.Named)
	return ok && n.Obj().Pkg() == nil && n.Obj().Name() == "error"
}

// arith applies the wrap-around of the result type. int and int64 are mathematical (stated assumption).
func (fc *FnCtx) arith(t types.Type, term string) string {
	b, ok := t.Underlying().(*types.Basic)
	if !ok {
		return term
	}
	switch b.Kind() {
	case types.Int, types.Int64, types.UntypedInt:
		return term
	}
	if b.Info()&types.IsInteger == 0 {
		return term
	}
	return wrapInt(t, term)
}

func isUnsigned(t types.Type) bool {
	b, ok := t.Underlying().(*types.Basic)
	return ok && b.Info()&types.IsUnsigned != 0
}

func isFloat(t types.Type) bool {
	b, ok := t.Underlying().(*types.Basic)
	return ok && b.Info()&(types.IsFloat|types.IsComplex) != 0
}

func isString(t types.Type) bool {
	b, ok := t.Underlying().(*types.Basic)
	return ok && b.Info()&types.IsString != 0
}

func constInt(v ssa.Value) (int64, bool) {
	c, ok := v.(*ssa.Const)
	if !ok || c.Value == nil || c.Value.Kind() != constant.Int {
		return 0, false
	}
	i, exact := constant.Int64Val(c.Value)
	if !exact {
		u, ok := constant.Uint64Val(c.Value)
		if ok && u <= 1<<62 {
			return int64(u), true
		}
		return 0, false
	}
	return i, true
}

func pow2big(n int64) string {
	if n < 62 {
		return fmt.Sprintf("%d", int64(1)<<uint(n))
	}
	// exact decimal of 2^n for n up to 64
	switch n {
	case 62:
		return "4611686018427387904"
	case 63:
		return "9223372036854775808"
	case 64:
		return "18446744073709551616"
	}
	return ""
}

func goDiv(a, b string, unsigned bool) string {
	if unsigned {
		return "(div " + a + " " + b + ")"
	}
	// truncated division
	return "(ite (>= " + a + " 0) (ite (> " + b + " 0) (div " + a + " " + b + ") (- (div " + a + " (- " + b + ")))) (ite (> " + b + " 0) (- (div (- " + a + ") " + b + ")) (div (- " + a + ") (- " + b + "))))"
}

func (fc *FnCtx) execBinOp(x *ssa.BinOp) error {
	a, err := fc.val(x.X)
	if err != nil {
		return err
	}
	b, err := fc.val(x.Y)
	if err != nil {
		return err
	}
	if a.Loc != nil {
		if a, err = fc.materialize(a); err != nil {
			return err
		}
	}
	if b.Loc != nil {
		if b, err = fc.materialize(b); err != nil {
			return err
		}
	}
	t := x.Type()
	ot := x.X.Type()
	uninterp := func(name string) error {
		fn := name + "." + typeKey(ot)
		fc.vc.declareFun(fn, []string{string(a.S), string(b.S)}, fc.sortStr(t))
		r := fc.define(x, "("+fn+" "+a.T+" "+b.T+")", t)
		fc.vc.assume(fc.cur.reach, fc.wellTyped(r.T, t, fc.alloc(), 0))
		return nil
	}
	if isFloat(ot) {
		switch x.Op {
		case token.EQL:
			fc.define(x, mkEq(a.T, b.T), t)
			return nil
		case token.NEQ:
			fc.define(x, mkNot(mkEq(a.T, b.T)), t)
			return nil
		}
		return uninterp("fop" + fmt.Sprintf("%d", int(x.Op)))
	}
	if isString(ot) {
		switch x.Op {
		case token.EQL:
			fc.define(x, mkEq(a.T, b.T), t)
			return nil
		case token.NEQ:
			fc.define(x, mkNot(mkEq(a.T, b.T)), t)
			return nil
		case token.ADD:
			fc.vc.declareFun("strlen", []string{"Int"}, "Int")
			fc.vc.declareFun("strcat", []string{"Int", "Int"}, "Int")
			r := fc.define(x, "(strcat "+a.T+" "+b.T+")", t)
			fc.vc.assume(fc.cur.reach, mkEq("(strlen "+r.T+")", "(+ (strlen "+a.T+") (strlen "+b.T+"))"))
			return nil
		}
		return uninterp("sop" + fmt.Sprintf("%d", int(x.Op)))
	}
	switch x.Op {
	case token.ADD:
		fc.define(x, fc.arith(t, "(+ "+a.T+" "+b.T+")"), t)
	case token.SUB:
		if isUnsigned(t) {
			fc.safeKind("underflow", "(>= "+a.T+" "+b.T+")", "unsigned subtraction wraps around")
		}
		fc.define(x, fc.arith(t, "(- "+a.T+" "+b.T+")"), t)
	case token.MUL:
		fc.define(x, fc.arith(t, "(* "+a.T+" "+b.T+")"), t)
	case token.QUO:
		fc.safe("div", mkNot(mkEq(b.T, "0")), "division by zero")
		fc.define(x, fc.arith(t, goDiv(a.T, b.T, isUnsigned(t))), t)
	case token.REM:
		fc.safe("div", mkNot(mkEq(b.T, "0")), "division by zero")
		if isUnsigned(t) {
			fc.define(x, "(mod "+a.T+" "+b.T+")", t)
		} else {
			fc.define(x, "(- "+a.T+" (* "+b.T+" "+goDiv(a.T, b.T, false)+"))", t)
		}
	case token.EQL:
		fc.define(x, mkEq(a.T, b.T), t)
	case token.NEQ:
		fc.define(x, mkNot(mkEq(a.T, b.T)), t)
	case token.LSS:
		fc.define(x, "(< "+a.T+" "+b.T+")", t)
	case token.LEQ:
		fc.define(x, "(<= "+a.T+" "+b.T+")", t)
	case token.GTR:
		fc.define(x, "(> "+a.T+" "+b.T+")", t)
	case token.GEQ:
		fc.define(x, "(>= "+a.T+" "+b.T+")", t)
	case token.SHL:
		if c, ok := constInt(x.Y); ok && c >= 0 && c <= 64 {
			fc.define(x, fc.arith(t, "(* "+a.T+" "+pow2big(c)+")"), t)
			return nil
		}
		return uninterp("shl")
	case token.SHR:
		if c, ok := constInt(x.Y); ok && c >= 0 && c <= 64 {
			fc.define(x, "(div "+a.T+" "+pow2big(c)+")", t)
			return nil
		}
		return uninterp("shr")
	case token.AND:
		if a.S == SBool {
			fc.define(x, mkAnd(a.T, b.T), t)
			return nil
		}
		if c, ok := constInt(x.Y); ok && isUnsigned(t) {
			if term, ok := maskTerm(a.T, c); ok {
				fc.define(x, term, t)
				return nil
			}
		}
		if c, ok := constInt(x.X); ok && isUnsigned(t) {
			if term, ok := maskTerm(b.T, c); ok {
				fc.define(x, term, t)
				return nil
			}
		}
		return uninterp("and")
	case token.OR:
		if a.S == SBool {
			fc.define(x, mkOr(a.T, b.T), t)
			return nil
		}
		return uninterp("or")
	case token.XOR:
		return uninterp("xor")
	case token.AND_NOT:
		return uninterp("andnot")
	default:
		return unsupportedf("binary op %s", x.Op)
	}
	return nil
}

// maskTerm translates x & mask for a contiguous mask into div/mod arithmetic.
func maskTerm(x string, mask int64) (string, bool) {
	if mask == 0 {
		return "0", true
	}
	lo := 0
	m := uint64(mask)
	for m&1 == 0 {
		m >>= 1
		lo++
	}
	w := 0
	for m&1 == 1 {
		m >>= 1
		w++
	}
	if m != 0 {
		return "", false
	}
	t := x
	if lo > 0 {
		t = "(div " + t + " " + pow2big(int64(lo)) + ")"
	}
	t = "(mod " + t + " " + pow2big(int64(w)) + ")"
	if lo > 0 {
		t = "(* " + t + " " + pow2big(int64(lo)) + ")"
	}
	return t, true
}

func (fc *FnCtx) execConvert(x *ssa.Convert) error {
	v, err := fc.val(x.X)
	if err != nil {
		return err
	}
	from, to := x.X.Type(), x.Type()
	fb, fok := from.Underlying().(*types.Basic)
	tb, tok := to.Underlying().(*types.Basic)
	switch {
	case fok && tok && fb.Info()&types.IsInteger != 0 && tb.Info()&types.IsInteger != 0:
		// numeric conversion: wrap into the target range (also for int/int64 targets: a real narrowing)
		bf, sf, _ := intBits(from)
		bt, st, _ := intBits(to)
		if (bt > bf && (st || !sf)) || (bt == bf && st == sf) {
			fc.env[x] = Val{T: v.T, S: SInt, Typ: to}
			return nil
		}
		fc.safeKind("convert", intRange(to, v.T), "integer conversion changes the value")
		fc.define(x, wrapInt(to, v.T), to)
		return nil
	case fok && tok && (fb.Info()&types.IsFloat != 0 || tb.Info()&types.IsFloat != 0):
		fn := "conv." + typeKey(from) + "." + typeKey(to)
		fc.vc.declareFun(fn, []string{"Int"}, "Int")
		r := fc.define(x, "("+fn+" "+v.T+")", to)
		fc.vc.assume(fc.cur.reach, intRange(to, r.T))
		return nil
	case tok && tb.Info()&types.IsString != 0:
		// string(bytes) / string(rune)
		fc.vc.declareFun("strlen", []string{"Int"}, "Int")
		r := fc.symbolic("str", to)
		if v.S == SSlice {
			fc.vc.assume(fc.cur.reach, mkEq("(strlen "+r.T+")", proj("s-len", v.T)))
		}
		fc.env[x] = r
		return nil
	case fok && fb.Info()&types.IsString != 0:
		// []byte(string)
		if _, ok := to.Underlying().(*types.Slice); ok {
			fc.vc.declareFun("strlen", []string{"Int"}, "Int")
			ref := fc.newRef()
			r := fc.define(x, mkSlice(ref, "0", "(strlen "+v.T+")", "(strlen "+v.T+")"), to)
			fc.vc.assume(fc.cur.reach, "(>= (strlen "+v.T+") 0)")
			_ = r
			return nil
		}
	}
	if types.Identical(from.Underlying(), to.Underlying()) {
		v.Typ = to
		fc.env[x] = v
		return nil
	}
	if _, ok := from.Underlying().(*types.Pointer); ok {
		v.Typ = to
		fc.env[x] = v
		return nil
	}
	return unsupportedf("conversion %s -> %s", from, to)
}

func (fc *FnCtx) execMakeSlice(x *ssa.MakeSlice) error {
	ln, err := fc.val(x.Len)
	if err != nil {
		return err
	}
	cp, err := fc.val(x.Cap)
	if err != nil {
		return err
	}
	et := x.Type().Underlying().(*types.Slice).Elem()
	fc.safeKind("make", "(and (<= 0 "+ln.T+") (<= "+ln.T+" "+cp.T+") (<= "+cp.T+" "+allocMax+"))", "make: length/capacity out of range or unbounded")
	r := fc.newRef()
	c := elemComp(et)
	es := fc.sortStr(et)
	srt := arraySort(arraySort(es))
	fc.setComp(c, srt, sto(fc.getComp(c, srt), r, "((as const (Array Int "+es+")) "+fc.vc.zeroValue(et)+")"))
	fc.define(x, mkSlice(r, "0", ln.T, cp.T), x.Type())
	return nil
}

// allocMax is the largest slice a make() may be asked for before the obligation "not sized by the peer" fails.
const allocMax = "2147483648"

func (fc *FnCtx) execSlice(x *ssa.Slice) error {
	base, err := fc.val(x.X)
	if err != nil {
		return err
	}
	get := func(v ssa.Value, def string) (string, error) {
		if v == nil {
			return def, nil
		}
		r, err := fc.val(v)
		if err != nil {
			return "", err
		}
		return r.T, nil
	}
	switch bt := x.X.Type().Underlying().(type) {
	case *types.Slice:
		lo, err := get(x.Low, "0")
		if err != nil {
			return err
		}
		hi, err := get(x.High, proj("s-len", base.T))
		if err != nil {
			return err
		}
		mx, err := get(x.Max, proj("s-cap", base.T))
		if err != nil {
			return err
		}
		fc.safe("slice", "(and (<= 0 "+lo+") (<= "+lo+" "+hi+") (<= "+hi+" "+mx+") (<= "+mx+" "+proj("s-cap", base.T)+"))", "slice bounds out of range")
		fc.define(x, mkSlice(proj("s-arr", base.T), mkAdd(proj("s-off", base.T), lo), mkSub(hi, lo), mkSub(mx, lo)), x.Type())
		return nil
	case *types.Pointer:
		at, ok := bt.Elem().Underlying().(*types.Array)
		if !ok {
			return unsupportedf("slice of %s", x.X.Type())
		}
		if base.Loc != nil {
			// an array stored inside a struct or variable as one opaque value: the slice is a fresh byte region and
			// the stored value becomes arbitrary (it may be written through the slice)
			fc.vc.trust("x.f[:] on an array field yields a fresh region; the field's (opaque) value is havocked at that point, assuming the slice is used immediately")
			nv := fc.symbolic("arrfield", base.Loc.Typ)
			if base.Loc.Kind != locConst {
				if err := fc.store(base.Loc, nv); err != nil {
					return err
				}
			}
			ref := fc.newRef()
			lo, err := get(x.Low, "0")
			if err != nil {
				return err
			}
			hi, err := get(x.High, fmt.Sprintf("%d", at.Len()))
			if err != nil {
				return err
			}
			fc.getComp(elemComp(at.Elem()), arraySort(arraySort(fc.sortStr(at.Elem()))))
			fc.define(x, mkSlice(ref, lo, mkSub(hi, lo), mkSub(fmt.Sprintf("%d", at.Len()), lo)), x.Type())
			return nil
		}
		n := fmt.Sprintf("%d", at.Len())
		if a, ok := x.X.(*ssa.Alloc); ok && !fc.arrayRegionMode(a) && onlyComparedSlice(x) {
			// whole-array view of an array kept as one opaque value
			c := boxComp(bt.Elem())
			v := sel(fc.getComp(c, arraySort("Int")), base.T)
			fc.env[x] = Val{T: mkSlice("0", "0", n, n), S: SSlice, Typ: x.Type(), ArrView: v}
			return nil
		}
		lo, err := get(x.Low, "0")
		if err != nil {
			return err
		}
		hi, err := get(x.High, n)
		if err != nil {
			return err
		}
		mx, err := get(x.Max, n)
		if err != nil {
			return err
		}
		fc.safe("slice", "(and (<= 0 "+lo+") (<= "+lo+" "+hi+") (<= "+hi+" "+mx+") (<= "+mx+" "+n+"))", "slice bounds out of range")
		fc.define(x, mkSlice(base.T, lo, mkSub(hi, lo), mkSub(mx, lo)), x.Type())
		return nil
	case *types.Basic:
		// substring
		fc.vc.declareFun("strlen", []string{"Int"}, "Int")
		lo, err := get(x.Low, "0")
		if err != nil {
			return err
		}
		hi, err := get(x.High, "(strlen "+base.T+")")
		if err != nil {
			return err
		}
		fc.safe("slice", "(and (<= 0 "+lo+") (<= "+lo+" "+hi+") (<= "+hi+" (strlen "+base.T+")))", "string slice bounds out of range")
		r := fc.symbolic("substr", x.Type())
		fc.vc.assume(fc.cur.reach, mkEq("(strlen "+r.T+")", mkSub(hi, lo)))
		fc.env[x] = r
		return nil
	}
	return unsupportedf("slice of %s", x.X.Type())
}

func (fc *FnCtx) mapSorts(mt *types.Map) (string, string) {
	return fc.sortStr(mt.Key()), fc.sortStr(mt.Elem())
}

func (fc *FnCtx) execMapUpdate(x *ssa.MapUpdate) error {
	m, err := fc.val(x.Map)
	if err != nil {
		return err
	}
	k, err := fc.val(x.Key)
	if err != nil {
		return err
	}
	v, err := fc.val(x.Value)
	if err != nil {
		return err
	}
	if v.Loc != nil {
		if v, err = fc.materialize(v); err != nil {
			return err
		}
	}
	fc.safe("nilmap", mkNot(mkEq(m.T, "0")), "assignment to entry in nil map")
	fc.mapStore(x.Map.Type(), m.T, k.T, v.T)
	return nil
}

func (fc *FnCtx) mapStore(mapT types.Type, m, k, v string) {
	mt := mapT.Underlying().(*types.Map)
	ks, vs := fc.mapSorts(mt)
	mh, mv, ml := mapComps(mapT)
	hs, vsrt, ls := arraySort("(Array "+ks+" Bool)"), arraySort("(Array "+ks+" "+vs+")"), arraySort("Int")
	h := fc.getComp(mh, hs)
	vv := fc.getComp(mv, vsrt)
	l := fc.getComp(ml, ls)
	fc.setComp(ml, ls, sto(l, m, mkIte(sel(sel(h, m), k), sel(l, m), mkAdd(sel(l, m), "1"))))
	fc.setComp(mh, hs, sto(h, m, sto(sel(h, m), k, "true")))
	fc.setComp(mv, vsrt, sto(vv, m, sto(sel(vv, m), k, v)))
}

func (fc *FnCtx) mapDelete(mapT types.Type, m, k string) {
	mt := mapT.Underlying().(*types.Map)
	ks, _ := fc.mapSorts(mt)
	mh, _, ml := mapComps(mapT)
	hs, ls := arraySort("(Array "+ks+" Bool)"), arraySort("Int")
	h := fc.getComp(mh, hs)
	l := fc.getComp(ml, ls)
	// delete on a nil map is a no-op: reference 0 never holds keys, so the update below is harmless but we keep
	// the nil map empty by guarding on m != 0
	fc.setComp(ml, ls, mkIte(mkEq(m, "0"), l, sto(l, m, mkIte(sel(sel(h, m), k), mkSub(sel(l, m), "1"), sel(l, m)))))
	fc.setComp(mh, hs, mkIte(mkEq(m, "0"), h, sto(h, m, sto(sel(h, m), k, "false"))))
}

// mapHas / mapGet in an arbitrary state (used by the spec translator too).
func (fc *FnCtx) mapHas(st *State, mapT types.Type, m, k string) string {
	mt := mapT.Underlying().(*types.Map)
	ks, _ := fc.mapSorts(mt)
	mh, _, _ := mapComps(mapT)
	h := fc.compAt(st, mh, arraySort("(Array "+ks+" Bool)"))
	return "(and (not (= " + m + " 0)) (select (select " + h + " " + m + ") " + k + "))"
}

func (fc *FnCtx) mapGet(st *State, mapT types.Type, m, k string) string {
	mt := mapT.Underlying().(*types.Map)
	ks, vs := fc.mapSorts(mt)
	_, mv, _ := mapComps(mapT)
	v := fc.compAt(st, mv, arraySort("(Array "+ks+" "+vs+")"))
	return sel(sel(v, m), k)
}

func (fc *FnCtx) execLookup(x *ssa.Lookup) error {
	m, err := fc.val(x.X)
	if err != nil {
		return err
	}
	k, err := fc.val(x.Index)
	if err != nil {
		return err
	}
	mt, ok := x.X.Type().Underlying().(*types.Map)
	if !ok {
		// string index
		fc.vc.declareFun("strat", []string{"Int", "Int"}, "Int")
		fc.vc.declareFun("strlen", []string{"Int"}, "Int")
		fc.safe("index", "(and (<= 0 "+k.T+") (< "+k.T+" (strlen "+m.T+")))", "string index out of range")
		r := fc.define(x, "(strat "+m.T+" "+k.T+")", x.Type())
		fc.vc.assume(fc.cur.reach, intRange(x.Type(), r.T))
		return nil
	}
	has := fc.mapHas(fc.cur, x.X.Type(), m.T, k.T)
	fc.touchMap(x.X.Type())
	get := fc.mapGet(fc.cur, x.X.Type(), m.T, k.T)
	zero := fc.vc.zeroValue(mt.Elem())
	valT := mkIte(has, get, zero)
	if x.CommaOk {
		vn := fc.vc.fresh(fc.name(x)+".v", fc.sortStr(mt.Elem()))
		fc.vc.assert(mkEq(vn, valT))
		on := fc.vc.fresh(fc.name(x)+".ok", "Bool")
		fc.vc.assert(mkEq(on, has))
		fc.vc.assume(fc.cur.reach, fc.wellTyped(vn, mt.Elem(), fc.alloc(), 0))
		fc.env[x] = Val{Typ: x.Type(), Tup: []Val{{T: vn, S: fc.vc.sortOf(mt.Elem()), Typ: mt.Elem()}, {T: on, S: SBool, Typ: types.Typ[types.Bool]}}}
		return nil
	}
	r := fc.define(x, valT, x.Type())
	fc.vc.assume(fc.cur.reach, fc.wellTyped(r.T, mt.Elem(), fc.alloc(), 0))
	return nil
}

func (fc *FnCtx) touchMap(mapT types.Type) {
	mt := mapT.Underlying().(*types.Map)
	ks, vs := fc.mapSorts(mt)
	mh, mv, ml := mapComps(mapT)
	fc.getComp(mh, arraySort("(Array "+ks+" Bool)"))
	fc.getComp(mv, arraySort("(Array "+ks+" "+vs+")"))
	fc.getComp(ml, arraySort("Int"))
}

func (fc *FnCtx) execNext(x *ssa.Next) error {
	if x.IsString {
		return unsupportedf("range over string")
	}
	it, err := fc.val(x.Iter)
	if err != nil {
		return err
	}
	mt := it.Typ.Underlying().(*types.Map)
	ok := fc.vc.fresh(fc.name(x)+".ok", "Bool")
	k := fc.symbolic(fc.name(x)+".k", mt.Key())
	fc.touchMap(it.Typ)
	has := fc.mapHas(fc.cur, it.Typ, it.T, k.T)
	fc.vc.assume(fc.cur.reach, mkImplies(ok, has))
	v := fc.vc.fresh(fc.name(x)+".v", fc.sortStr(mt.Elem()))
	fc.vc.assert(mkEq(v, fc.mapGet(fc.cur, it.Typ, it.T, k.T)))
	fc.vc.assume(fc.cur.reach, fc.wellTyped(v, mt.Elem(), fc.alloc(), 0))
	fc.vc.trust("map iteration visits arbitrary present keys (completeness of one pass is not claimed)")
	fc.env[x] = Val{Typ: x.Type(), Tup: []Val{{T: ok, S: SBool, Typ: types.Typ[types.Bool]}, k, {T: v, S: fc.vc.sortOf(mt.Elem()), Typ: mt.Elem()}}}
	return nil
}

func (fc *FnCtx) execTypeAssert(x *ssa.TypeAssert) error {
	v, err := fc.val(x.X)
	if err != nil {
		return err
	}
	fc.vc.declareFun("typeOf", []string{"Int"}, "Int")
	at := x.AssertedType
	var okT, valT string
	if _, isIface := at.Underlying().(*types.Interface); isIface {
		okv := fc.vc.fresh("implements", "Bool")
		okT = mkAnd(mkNot(mkEq(v.T, "0")), okv)
		valT = v.T
	} else {
		tid := fc.typeID(at)
		okT = mkAnd(mkNot(mkEq(v.T, "0")), mkEq("(typeOf "+v.T+")", tid))
		switch at.Underlying().(type) {
		case *types.Pointer, *types.Map, *types.Chan, *types.Signature:
			valT = v.T
		default:
			uf := "unwrap." + typeKey(at)
			fc.vc.declareFun(uf, []string{"Int"}, fc.sortStr(at))
			valT = "(" + uf + " " + v.T + ")"
		}
	}
	if x.CommaOk {
		on := fc.vc.fresh(fc.name(x)+".ok", "Bool")
		fc.vc.assert(mkEq(on, okT))
		vn := fc.vc.fresh(fc.name(x)+".v", fc.sortStr(at))
		fc.vc.assert(mkEq(vn, mkIte(on, valT, fc.vc.zeroValue(at))))
		fc.vc.assume(fc.cur.reach, fc.wellTyped(vn, at, fc.alloc(), 0))
		fc.env[x] = Val{Typ: x.Type(), Tup: []Val{{T: vn, S: fc.vc.sortOf(at), Typ: at}, {T: on, S: SBool, Typ: types.Typ[types.Bool]}}}
		return nil
	}
	fc.safe("typeassert", okT, "type assertion may fail")
	r := fc.define(x, valT, at)
	fc.vc.assume(fc.cur.reach, fc.wellTyped(r.T, at, fc.alloc(), 0))
	return nil
}

// ---------------------------------------------------------------------------------------------
// obligations

func (fc *FnCtx) topCtx() *FnCtx {
	c := fc
	for c.parent != nil {
		c = c.parent
	}
	return c
}

func (fc *FnCtx) siteDesc() string {
	if fc.lastCall == "" {
		return "entry"
	}
	return "after:" + fc.lastCall
}

func (fc *FnCtx) oblName(kind, detail string) string {
	top := fc.topCtx()
	base := shortName(top.fn) + "/" + kind
	if detail != "" {
		base += ":" + detail
	}
	if fc != top {
		base += "@inl:" + fc.fn.Name()
	}
	base += "@" + fc.siteDesc()
	top.oblCount[base]++
	if n := top.oblCount[base]; n > 1 {
		base += fmt.Sprintf("#%d", n)
	}
	return base
}

// safe emits a no-panic obligation when safety checking is on for the top-level function; in every case the
// condition is assumed afterwards (partial correctness: execution continues only if the operation succeeded).
func (fc *FnCtx) safe(kind, cond, desc string) {
	top := fc.topCtx()
	if top.safety && cond != "true" {
		fc.vc.oblige(&Obligation{Name: fc.oblName("safe", kind), Kind: "safe", Props: top.safetyTags, Func: shortName(top.fn),
			Guard: fc.cur.reach, Goal: cond, Desc: desc})
	}
	fc.vc.assume(fc.cur.reach, cond)
}

// safeKind emits an obligation for conditions that are not panics in Go but that the no-crash property cares
// about (unsigned wrap feeding a length, narrowing conversion, unbounded make). Not assumed afterwards, except make.
func (fc *FnCtx) safeKind(kind, cond, desc string) {
	top := fc.topCtx()
	if kind == "make" {
		fc.safe(kind, cond, desc)
		return
	}
	if top.safety && top.con != nil && top.con.hasSafetyKind(kind) {
		fc.vc.oblige(&Obligation{Name: fc.oblName("safe", kind), Kind: "safe", Props: top.safetyTags, Func: shortName(top.fn),
			Guard: fc.cur.reach, Goal: cond, Desc: desc})
	}
}

func (c *Contract) hasSafetyKind(kind string) bool {
	for _, s := range c.Safety {
		if s == "+"+kind {
			return true
		}
	}
	return false
}

// usesRecover: a call of the recover builtin in the function or one of its closures (fn.Recover alone only means
// the function has a defer).
func usesRecover(fn *ssa.Function) bool {
	check := func(f *ssa.Function) bool {
		for _, b := range f.Blocks {
			for _, ins := range b.Instrs {
				if c, ok := ins.(ssa.CallInstruction); ok {
					if bi, ok := c.Common().Value.(*ssa.Builtin); ok && bi.Name() == "recover" {
						return true
					}
				}
			}
		}
		return false
	}
	if check(fn) {
		return true
	}
	for _, a := range fn.AnonFuncs {
		if check(a) {
			return true
		}
	}
	return false
}

// heavyBranch: at least one arm of the branch (the blocks dominated by a successor) changes modelled state or
// calls a function under contract; only such branch conditions are worth a case split.
func (fc *FnCtx) heavyBranch(b *ssa.BasicBlock) bool {
	var heavyBlock func(x *ssa.BasicBlock, depth int) bool
	heavyBlock = func(x *ssa.BasicBlock, depth int) bool {
		for _, ins := range x.Instrs {
			switch i := ins.(type) {
			case *ssa.Store, *ssa.MapUpdate, *ssa.Send, *ssa.Select, *ssa.MakeSlice, *ssa.MakeMap:
				if st, ok := i.(*ssa.Store); ok {
					if a, ok := st.Addr.(*ssa.Alloc); ok && immutableLocalStruct(a) {
						continue
					}
				}
				return true
			case ssa.CallInstruction:
				c := i.Common()
				if bi, ok := c.Value.(*ssa.Builtin); ok {
					if bi.Name() == "append" || bi.Name() == "delete" || bi.Name() == "close" || bi.Name() == "copy" {
						return true
					}
					continue
				}
				name := calleeName(c)
				if effectFree(name) {
					continue
				}
				if fc.callIsLight(c, 0) {
					continue
				}
				return true
			}
		}
		if depth < 40 {
			for _, d := range x.Dominees() {
				if heavyBlock(d, depth+1) {
					return true
				}
			}
		}
		return false
	}
	for _, s := range b.Succs {
		if s.Idom() == b && heavyBlock(s, 0) {
			return true
		}
	}
	return false
}

// callIsLight: the call cannot change modelled state in a way that matters for case splitting: a contract with
// "modifies nothing", a modelled library function without heap effect, or an inlinable callee whose body is light.
func (fc *FnCtx) callIsLight(c *ssa.CallCommon, depth int) bool {
	name := calleeName(c)
	if c.IsInvoke() {
		con := fc.prog.Cons.Iface[name]
		return con != nil && !con.ModAll && !con.ModHeap && len(con.Modifies) == 0
	}
	f, ok := c.Value.(*ssa.Function)
	if !ok {
		return false
	}
	if con := fc.prog.Cons.ByFunc[f]; con != nil {
		return !con.ModAll && !con.ModHeap && len(con.Modifies) == 0
	}
	if _, ok := builtinModels[name]; ok {
		return len(builtinMods[name]) == 0 || name == "(*github.com/tokenized/pkg/wire.BlockHeader).BlockHash" || strings.HasPrefix(name, "(*sync.")
	}
	if depth < 3 && fc.inlinableStatic(f) {
		for _, b := range f.Blocks {
			for _, ins := range b.Instrs {
				switch i := ins.(type) {
				case *ssa.Store:
					if a, ok := i.Addr.(*ssa.Alloc); ok && immutableLocalStruct(a) {
						continue
					}
					return false
				case *ssa.MapUpdate, *ssa.Send, *ssa.Select:
					return false
				case ssa.CallInstruction:
					cc := i.Common()
					if bi, ok := cc.Value.(*ssa.Builtin); ok {
						if bi.Name() == "append" || bi.Name() == "delete" || bi.Name() == "close" || bi.Name() == "copy" {
							return false
						}
						continue
					}
					if effectFree(calleeName(cc)) {
						continue
					}
					if !fc.callIsLight(cc, depth+1) {
						return false
					}
				}
			}
		}
		return true
	}
	return false
}

// alignLoops attaches the contract's `loop N` clauses to the loops of the function. Normally clause N belongs to the
// N-th loop head in block order. When the code has a different number of loops than the contract (a loop was added
// or removed), the clauses are matched in order, skipping loops that cannot be theirs (a clause that speaks about
// `rangeindex` needs a range loop); loops left without a clause get no invariant (sound: the modified state is
// simply unknown after them), and the mismatch is reported as a generator warning.
func (fc *FnCtx) alignLoops() {
	var clauses []*LoopCon
	maxN := 0
	for n := range fc.con.Loops {
		if n > maxN {
			maxN = n
		}
	}
	for n := 1; n <= maxN; n++ {
		if c := fc.con.Loops[n]; c != nil {
			clauses = append(clauses, c)
		}
	}
	loops := fc.loopOrder
	if len(clauses) == 0 {
		return
	}
	if len(loops) == maxN {
		for _, h := range loops {
			li := fc.loopHeads[h]
			li.con = fc.con.Loops[li.ordinal]
		}
		return
	}
	fc.loopMisaligned = true
	fc.vc.warn("%s: the contract has clauses for %d loops, the function has %d: clauses matched in order, unmatched loops carry no invariant", fc.fn.Name(), maxN, len(loops))
	isRange := func(li *loopInfo) bool {
		for _, ins := range li.head.Instrs {
			phi, ok := ins.(*ssa.Phi)
			if !ok {
				break
			}
			if phi.Comment == "rangeindex" {
				return true
			}
		}
		return false
	}
	needsRange := func(c *LoopCon) bool {
		for _, inv := range c.Invs {
			if strings.Contains(inv.Src, "rangeindex") {
				return true
			}
		}
		return false
	}
	k := 0
	for i, h := range loops {
		if k >= len(clauses) {
			break
		}
		li := fc.loopHeads[h]
		remainingLoops := len(loops) - i
		remainingClauses := len(clauses) - k
		if needsRange(clauses[k]) == isRange(li) || remainingLoops <= remainingClauses {
			li.con = clauses[k]
			k++
		}
	}
}
