package main

import (
	"fmt"
	"go/types"
	"strings"

	"golang.org/x/tools/go/ssa"
)

type builtinModel func(fc *FnCtx, c *ssa.CallCommon, args []Val, rt types.Type) (*Val, error)

// builtinModels: trusted models of library functions, keyed by the callee's full name. Every one that is
// used in a VC registers a trusted-base note.
var builtinModels = map[string]builtinModel{}

// builtinMods: heap components written by a builtin model (for loop havoc sets).
var builtinMods = map[string][]string{}

const bigComp = "F.math.big.Int.v"

func init() {
	pkgb := "github.com/tokenized/pkg/bitcoin"
	pkgw := "github.com/tokenized/pkg/wire"
	builtinModels["(*"+pkgb+".Hash32).Equal"] = modelHashEqual
	builtinModels["(*"+pkgw+".BlockHeader).BlockHash"] = modelBlockHash
	inlineDeps["("+pkgw+".BlockHeader).WorkIsValid"] = true
	for _, n := range []string{"NewMerkleTree", "NewMerkleProof"} {
		inlineDeps["github.com/tokenized/pkg/merkle_proof."+n] = true
	}
	inlineDeps["(*github.com/tokenized/pkg/merkle_proof.MerkleTree).AddMerkleProof"] = true
	builtinModels["("+pkgb+".Hash32).Value"] = modelHashValue
	builtinMods["("+pkgb+".Hash32).Value"] = []string{bigComp}
	builtinModels[pkgb+".ConvertToWork"] = modelConvertToWork
	builtinModels[pkgb+".ConvertToBits"] = modelConvertToBits
	builtinMods[pkgb+".ConvertToWork"] = []string{bigComp}
	builtinMods["(*"+pkgw+".BlockHeader).BlockHash"] = []string{"B.bitcoin.Hash32"}

	for _, op := range []string{"Add", "Sub", "Mul", "Div", "Quo", "Mod", "Rem", "Set", "SetInt64", "SetUint64", "SetBytes", "Neg", "Abs", "Lsh", "Rsh", "Xor", "And", "Or", "Exp", "SetString", "SetBit"} {
		op := op
		builtinModels["(*math/big.Int)."+op] = func(fc *FnCtx, c *ssa.CallCommon, args []Val, rt types.Type) (*Val, error) {
			return modelBigOp(fc, op, args, rt)
		}
		builtinMods["(*math/big.Int)."+op] = []string{bigComp}
	}
	builtinModels["(*math/big.Int).Cmp"] = modelBigCmp
	builtinModels["(*math/big.Int).Sign"] = modelBigSign
	builtinModels["(*math/big.Int).Int64"] = modelBigToInt
	builtinModels["(*math/big.Int).Uint64"] = modelBigToInt
	builtinModels["(*bytes.Buffer).Len"] = modelNonNegative
	builtinModels["(*bytes.Reader).Len"] = modelNonNegative
	builtinModels["(*math/big.Int).IsInt64"] = modelOpaque
	builtinModels["(*math/big.Int).Bytes"] = modelBigBytes
	builtinModels["(*math/big.Int).BitLen"] = modelOpaque
	builtinModels["math/big.NewInt"] = modelBigNewInt
	builtinMods["math/big.NewInt"] = []string{bigComp}

	perr := "github.com/pkg/errors"
	builtinModels[perr+".New"] = modelErrNew
	builtinModels["errors.New"] = modelErrNew
	builtinModels["fmt.Errorf"] = modelErrNew
	builtinModels[perr+".Errorf"] = modelErrNew
	builtinModels[perr+".Wrap"] = modelErrWrap
	builtinModels[perr+".Wrapf"] = modelErrWrap
	builtinModels[perr+".WithStack"] = modelErrWrap
	builtinModels[perr+".WithMessage"] = modelErrWrap
	builtinModels[perr+".Cause"] = modelErrCause

	for _, m := range []string{"Lock", "Unlock"} {
		m := m
		builtinModels["(*sync.Mutex)."+m] = func(fc *FnCtx, c *ssa.CallCommon, args []Val, rt types.Type) (*Val, error) {
			return modelLock(fc, "sync.Mutex", m, args)
		}
		builtinMods["(*sync.Mutex)."+m] = []string{"*"}
	}
	for _, m := range []string{"Lock", "Unlock", "RLock", "RUnlock"} {
		m := m
		builtinModels["(*sync.RWMutex)."+m] = func(fc *FnCtx, c *ssa.CallCommon, args []Val, rt types.Type) (*Val, error) {
			return modelLock(fc, "sync.RWMutex", m, args)
		}
		builtinMods["(*sync.RWMutex)."+m] = []string{"*"}
	}
	builtinModels["(*github.com/tokenized/pkg/wire.MsgTx).TxHash"] = func(fc *FnCtx, c *ssa.CallCommon, args []Val, rt types.Type) (*Val, error) {
		fc.vc.trust("wire.MsgTx.TxHash is an uninterpreted function of the transaction object (its content is not modelled)")
		fc.vc.declareFun("uf.txHash", []string{"Int"}, "Int")
		r := fc.newRef()
		et := rt.Underlying().(*types.Pointer).Elem()
		bc := boxComp(et)
		fc.setComp(bc, arraySort("Int"), sto(fc.getComp(bc, arraySort("Int")), r, "(uf.txHash "+args[0].T+")"))
		return &Val{T: r, S: SInt, Typ: rt}, nil
	}
	builtinMods["(*github.com/tokenized/pkg/wire.MsgTx).TxHash"] = []string{"B.bitcoin.Hash32"}
	builtinModels["sort.Sort"] = modelSortSort
	builtinModels["bytes.Equal"] = func(fc *FnCtx, c *ssa.CallCommon, args []Val, rt types.Type) (*Val, error) {
		if args[0].ArrView != "" && args[1].ArrView != "" {
			n := fc.vc.fresh("byteseq", "Bool")
			fc.vc.assert(mkEq(n, mkEq(args[0].ArrView, args[1].ArrView)))
			return &Val{T: n, S: SBool, Typ: rt}, nil
		}
		v := fc.symbolic("byteseq", rt)
		return &v, nil
	}
	builtinModels["(*sync/atomic.Value).Load"] = func(fc *FnCtx, c *ssa.CallCommon, args []Val, rt types.Type) (*Val, error) {
		l, err := fc.derefLoc(args[0])
		if err != nil {
			return nil, err
		}
		cur, err := fc.load(l)
		if err != nil {
			return nil, err
		}
		dt := string(cur.S)
		return &Val{T: "(" + dt + ".val " + cur.T + ")", S: SInt, Typ: rt}, nil
	}
	// time.Since(t): an uninterpreted function of t. Within one call time is treated as not advancing between two
	// readings of the same stamp (assumption, recorded); time.Now stays an arbitrary value.
	builtinModels["time.Since"] = func(fc *FnCtx, c *ssa.CallCommon, args []Val, rt types.Type) (*Val, error) {
		fc.vc.trust("time.Since(t) is a function of t within one call (the clock does not advance between two readings of the same stamp)")
		return &Val{T: fc.timeSince(args[0]), S: SInt, Typ: rt}, nil
	}
	builtinModels["(*sync/atomic.Value).Store"] = func(fc *FnCtx, c *ssa.CallCommon, args []Val, rt types.Type) (*Val, error) {
		l, err := fc.derefLoc(args[0])
		if err != nil {
			return nil, err
		}
		cur, err := fc.load(l)
		if err != nil {
			return nil, err
		}
		dt := string(cur.S)
		return nil, fc.store(l, Val{T: "(mk." + dt + " " + args[1].T + ")", S: cur.S, Typ: l.Typ})
	}
	builtinMods["(*sync/atomic.Value).Store"] = []string{"*"}
}

// modelNonNegative: a library length (bytes.Buffer.Len, bytes.Reader.Len): an unconstrained non-negative integer.
func modelNonNegative(fc *FnCtx, c *ssa.CallCommon, args []Val, rt types.Type) (*Val, error) {
	fc.vc.trust("library call " + shortCallee(calleeName(c)) + " returns an unconstrained non-negative length and has no effect on modelled state")
	// the same buffer asked twice without a read in between gives the same answer: a function of the buffer
	// and of the number of bytes consumed from it so far
	fc.vc.declareFun("lib.buflen", []string{"Int", "Int"}, "Int")
	t := "(lib.buflen " + args[0].T + " " + sel(fc.ghArr(ghConsumed), args[0].T) + ")"
	fc.vc.assume(fc.cur.reach, "(>= "+t+" 0)")
	return &Val{T: t, S: SInt, Typ: rt}, nil
}

func modelOpaque(fc *FnCtx, c *ssa.CallCommon, args []Val, rt types.Type) (*Val, error) {
	fc.vc.trust("library call " + shortCallee(calleeName(c)) + " returns an unconstrained value and has no effect on modelled state")
	if rt == nil || isEmptyTuple(rt) {
		return nil, nil
	}
	v := fc.symbolic("r."+smtIdent(shortCallee(calleeName(c))), rt)
	return &v, nil
}

// ptrValue reads the value a pointer (reference or interior location) points to.
func (fc *FnCtx) ptrValue(p Val) (string, error) {
	l, err := fc.derefLoc(p)
	if err != nil {
		return "", err
	}
	v, err := fc.load(l)
	if err != nil {
		return "", err
	}
	return v.T, nil
}

func modelHashEqual(fc *FnCtx, c *ssa.CallCommon, args []Val, rt types.Type) (*Val, error) {
	fc.vc.trust("bitcoin.Hash32.Equal is equality of the 32-byte values (nil equals only nil)")
	a, b := args[0], args[1]
	av, err := fc.ptrValue(a)
	if err != nil {
		return nil, err
	}
	bv, err := fc.ptrValue(b)
	if err != nil {
		return nil, err
	}
	eq := mkEq(av, bv)
	anil, bnil := "false", "false"
	if a.Loc == nil {
		anil = mkEq(a.T, "0")
	}
	if b.Loc == nil {
		bnil = mkEq(b.T, "0")
	}
	t := mkIte(anil, bnil, mkIte(bnil, "false", eq))
	n := fc.vc.fresh("hasheq", "Bool")
	fc.vc.assert(mkEq(n, t))
	return &Val{T: n, S: SBool, Typ: types.Typ[types.Bool]}, nil
}

// hashOfHeader is the uninterpreted block hash of the six header fields read in state st.
func (fc *FnCtx) hashOfHeader(st *State, h string, ht types.Type) string {
	fc.vc.declareFun("uf.hashOf", []string{"Int", "Int", "Int", "Int", "Int", "Int"}, "Int")
	var parts []string
	for _, f := range fc.vc.fieldsOf(ht) {
		parts = append(parts, sel(fc.compAt(st, fieldComp(ht, f.name), arraySort(string(f.sort))), h))
	}
	return "(uf.hashOf " + strings.Join(parts, " ") + ")"
}

func headerStructType(p Val) types.Type {
	return p.Typ.Underlying().(*types.Pointer).Elem()
}

func modelBlockHash(fc *FnCtx, c *ssa.CallCommon, args []Val, rt types.Type) (*Val, error) {
	fc.vc.trust("wire.BlockHeader.BlockHash is an uninterpreted function of the six header fields (no collision-freedom assumed)")
	h := args[0]
	if h.Loc != nil {
		return nil, unsupportedf("BlockHash on interior pointer")
	}
	fc.safe("nil", mkNot(mkEq(h.T, "0")), "BlockHash on nil header")
	ht := headerStructType(h)
	for _, f := range fc.vc.fieldsOf(ht) {
		fc.getComp(fieldComp(ht, f.name), arraySort(string(f.sort)))
	}
	hv := fc.hashOfHeader(fc.cur, h.T, ht)
	r := fc.newRef()
	et := rt.Underlying().(*types.Pointer).Elem()
	bc := boxComp(et)
	fc.setComp(bc, arraySort("Int"), sto(fc.getComp(bc, arraySort("Int")), r, hv))
	return &Val{T: r, S: SInt, Typ: rt}, nil
}

func modelHashValue(fc *FnCtx, c *ssa.CallCommon, args []Val, rt types.Type) (*Val, error) {
	fc.vc.trust("bitcoin.Hash32.Value(h) returns a fresh big.Int with the uninterpreted numeric value uf.hashValue(h) >= 0")
	fc.vc.declareFun("uf.hashValue", []string{"Int"}, "Int")
	v := "(uf.hashValue " + args[0].T + ")"
	fc.vc.assume(fc.cur.reach, "(>= "+v+" 0)")
	r := fc.newBig(v)
	return &Val{T: r, S: SInt, Typ: rt}, nil
}

func (fc *FnCtx) newBig(val string) string {
	r := fc.newRef()
	fc.setComp(bigComp, arraySort("Int"), sto(fc.getComp(bigComp, arraySort("Int")), r, val))
	return r
}

func (fc *FnCtx) bigVal(p string) string {
	return sel(fc.getComp(bigComp, arraySort("Int")), p)
}

func modelConvertToWork(fc *FnCtx, c *ssa.CallCommon, args []Val, rt types.Type) (*Val, error) {
	fc.vc.trust("bitcoin.ConvertToWork(d) returns a fresh big.Int with value uf.workOfDiff(d) >= 1 (dependency arithmetic trusted)")
	fc.vc.declareFun("uf.workOfDiff", []string{"Int"}, "Int")
	v := "(uf.workOfDiff " + fc.bigVal(args[0].T) + ")"
	fc.vc.assume(fc.cur.reach, "(>= "+v+" 1)")
	r := fc.newBig(v)
	return &Val{T: r, S: SInt, Typ: rt}, nil
}

func modelConvertToBits(fc *FnCtx, c *ssa.CallCommon, args []Val, rt types.Type) (*Val, error) {
	fc.vc.trust("bitcoin.ConvertToBits(t, max) = uf.bitsOf(t, max) (dependency arithmetic trusted)")
	fc.vc.declareFun("uf.bitsOf", []string{"Int", "Int"}, "Int")
	n := fc.vc.fresh("bits", "Int")
	fc.vc.assert(mkEq(n, "(uf.bitsOf "+fc.bigVal(args[0].T)+" "+args[1].T+")"))
	fc.vc.assert(intRange(rt, n))
	return &Val{T: n, S: SInt, Typ: rt}, nil
}

func modelBigOp(fc *FnCtx, op string, args []Val, rt types.Type) (*Val, error) {
	fc.vc.trust("math/big.Int operations are mathematical integer operations on the ghost value of the receiver/arguments")
	z := args[0].T
	fc.safe("nil", mkNot(mkEq(z, "0")), "nil *big.Int receiver")
	for i := 1; i < len(args); i++ {
		if _, isPtr := args[i].Typ.Underlying().(*types.Pointer); isPtr && op != "SetString" {
			fc.safe("nil", mkNot(mkEq(args[i].T, "0")), "nil *big.Int argument")
		}
	}
	get := func(i int) string { return fc.bigVal(args[i].T) }
	var v string
	switch op {
	case "Add":
		v = "(+ " + get(1) + " " + get(2) + ")"
	case "Sub":
		v = "(- " + get(1) + " " + get(2) + ")"
	case "Mul":
		v = "(* " + get(1) + " " + get(2) + ")"
	case "Div": // Euclidean division, as SMT-LIB div
		fc.safe("div", mkNot(mkEq(get(2), "0")), "big.Int division by zero")
		v = "(div " + get(1) + " " + get(2) + ")"
	case "Mod":
		fc.safe("div", mkNot(mkEq(get(2), "0")), "big.Int division by zero")
		v = "(mod " + get(1) + " " + get(2) + ")"
	case "Quo":
		fc.safe("div", mkNot(mkEq(get(2), "0")), "big.Int division by zero")
		v = goDiv(get(1), get(2), false)
	case "Set":
		v = get(1)
	case "SetInt64", "SetUint64":
		v = args[1].T
	case "Neg":
		v = "(- " + get(1) + ")"
	case "Abs":
		v = "(ite (>= " + get(1) + " 0) " + get(1) + " (- " + get(1) + "))"
	case "SetBytes":
		// big-endian value of the bytes: uninterpreted function of the region content
		fc.vc.declareFun("uf.bytesValue", []string{"(Array Int Int)", "Int", "Int"}, "Int")
		s := args[1]
		bt := s.Typ.Underlying().(*types.Slice).Elem()
		e := fc.getComp(elemComp(bt), arraySort(arraySort("Int")))
		v = "(uf.bytesValue " + sel(e, proj("s-arr", s.T)) + " " + proj("s-off", s.T) + " " + proj("s-len", s.T) + ")"
		fc.vc.assume(fc.cur.reach, "(>= "+v+" 0)")
	default:
		fn := "uf.big" + op
		var as []string
		var sorts []string
		for i := 1; i < len(args); i++ {
			if _, isPtr := args[i].Typ.Underlying().(*types.Pointer); isPtr {
				as = append(as, get(i))
			} else if args[i].S == SInt {
				as = append(as, args[i].T)
			} else {
				continue
			}
			sorts = append(sorts, "Int")
		}
		fc.vc.declareFun(fn, sorts, "Int")
		v = "(" + fn + " " + strings.Join(as, " ") + ")"
		if len(as) == 0 {
			v = fn
		}
	}
	fc.setComp(bigComp, arraySort("Int"), sto(fc.getComp(bigComp, arraySort("Int")), z, v))
	if rt == nil || isEmptyTuple(rt) {
		return nil, nil
	}
	if tup, ok := rt.(*types.Tuple); ok {
		// SetString returns (*Int, bool)
		var vs []Val
		vs = append(vs, Val{T: z, S: SInt, Typ: tup.At(0).Type()})
		for i := 1; i < tup.Len(); i++ {
			vs = append(vs, fc.symbolic("bigr", tup.At(i).Type()))
		}
		return &Val{Tup: vs, Typ: rt}, nil
	}
	return &Val{T: z, S: SInt, Typ: rt}, nil
}

func modelBigCmp(fc *FnCtx, c *ssa.CallCommon, args []Val, rt types.Type) (*Val, error) {
	fc.vc.trust("math/big.Int operations are mathematical integer operations on the ghost value of the receiver/arguments")
	fc.safe("nil", mkAnd(mkNot(mkEq(args[0].T, "0")), mkNot(mkEq(args[1].T, "0"))), "nil *big.Int in Cmp")
	a, b := fc.bigVal(args[0].T), fc.bigVal(args[1].T)
	n := fc.vc.fresh("cmp", "Int")
	fc.vc.assert(mkEq(n, "(ite (< "+a+" "+b+") (- 1) (ite (> "+a+" "+b+") 1 0))"))
	return &Val{T: n, S: SInt, Typ: rt}, nil
}

func modelBigSign(fc *FnCtx, c *ssa.CallCommon, args []Val, rt types.Type) (*Val, error) {
	a := fc.bigVal(args[0].T)
	n := fc.vc.fresh("sign", "Int")
	fc.vc.assert(mkEq(n, "(ite (< "+a+" 0) (- 1) (ite (> "+a+" 0) 1 0))"))
	return &Val{T: n, S: SInt, Typ: rt}, nil
}

func modelBigToInt(fc *FnCtx, c *ssa.CallCommon, args []Val, rt types.Type) (*Val, error) {
	a := fc.bigVal(args[0].T)
	n := fc.vc.fresh("bigint", "Int")
	fc.vc.assert(mkEq(n, wrapInt(rt, a)))
	return &Val{T: n, S: SInt, Typ: rt}, nil
}

func modelBigBytes(fc *FnCtx, c *ssa.CallCommon, args []Val, rt types.Type) (*Val, error) {
	fc.vc.trust("big.Int.Bytes returns a fresh byte slice (content uninterpreted, length = minimal byte length)")
	fc.vc.declareFun("uf.byteLen", []string{"Int"}, "Int")
	ref := fc.newRef()
	l := "(uf.byteLen " + fc.bigVal(args[0].T) + ")"
	fc.vc.assume(fc.cur.reach, "(>= "+l+" 0)")
	n := fc.vc.fresh("bigbytes", "Slice")
	fc.vc.assert(mkEq(n, mkSlice(ref, "0", l, l)))
	return &Val{T: n, S: SSlice, Typ: rt}, nil
}

func modelBigNewInt(fc *FnCtx, c *ssa.CallCommon, args []Val, rt types.Type) (*Val, error) {
	fc.vc.trust("math/big.Int operations are mathematical integer operations on the ghost value of the receiver/arguments")
	r := fc.newBig(args[0].T)
	return &Val{T: r, S: SInt, Typ: rt}, nil
}

// errors ---------------------------------------------------------------------------------------

func modelErrNew(fc *FnCtx, c *ssa.CallCommon, args []Val, rt types.Type) (*Val, error) {
	fc.vc.trust("errors.New / fmt.Errorf return a fresh non-nil error that is its own cause")
	fc.vc.declareFun("cause", []string{"Int"}, "Int")
	r := fc.newRef()
	fc.vc.assert(mkEq("(cause "+r+")", r))
	// ghost: the function (under verification) whose body created this error value
	fc.vc.declareFun("uf.errOrigin", []string{"Int"}, "Int")
	fc.vc.assert(mkEq("(uf.errOrigin "+r+")", fc.vc.originID(fc.topCtx().fn.String())))
	return &Val{T: r, S: SInt, Typ: rt}, nil
}

func modelErrWrap(fc *FnCtx, c *ssa.CallCommon, args []Val, rt types.Type) (*Val, error) {
	fc.vc.trust("errors.Wrap/Wrapf(e, ...) is nil iff e is nil and otherwise a fresh error with cause(e)")
	fc.vc.declareFun("cause", []string{"Int"}, "Int")
	e := args[0].T
	r := fc.newRef()
	n := fc.vc.fresh("wrapped", "Int")
	fc.vc.assert(mkEq(n, mkIte(mkEq(e, "0"), "0", r)))
	fc.vc.assert(mkEq("(cause "+r+")", "(cause "+e+")"))
	return &Val{T: n, S: SInt, Typ: rt}, nil
}

func modelErrCause(fc *FnCtx, c *ssa.CallCommon, args []Val, rt types.Type) (*Val, error) {
	fc.vc.declareFun("cause", []string{"Int"}, "Int")
	e := args[0].T
	n := fc.vc.fresh("cause", "Int")
	fc.vc.assert(mkEq(n, mkIte(mkEq(e, "0"), "0", "(cause "+e+")")))
	return &Val{T: n, S: SInt, Typ: rt}, nil
}

// locks ----------------------------------------------------------------------------------------

// modelLock: ghost `held` counter of the mutex: 0 free, -1 write-locked, n>0 read-locked n times. Lock requires
// free (self-deadlock otherwise), Unlock requires write-held. Mutual exclusion between goroutines is trusted.
func modelLock(fc *FnCtx, kind, method string, args []Val) (*Val, error) {
	fc.vc.trust("sync.Mutex/RWMutex provide mutual exclusion (trusted); only the per-function lock discipline is checked")
	mu := args[0]
	l, err := fc.derefLoc(mu)
	if err != nil {
		return nil, err
	}
	// the mutex struct value at that location
	cur, err := fc.load(l)
	if err != nil {
		return nil, err
	}
	dt := string(cur.S)
	held := "(" + dt + ".held " + cur.T + ")"
	top := fc.topCtx()
	oblige := func(kindName, goal, desc string) {
		if top.con != nil && top.con.Lock != "" {
			fc.vc.oblige(&Obligation{Name: fc.oblName("lock", kindName), Kind: "lock", Props: top.safetyTags, Func: shortName(top.fn), Guard: fc.cur.reach, Goal: goal, Desc: desc})
		}
		fc.vc.assume(fc.cur.reach, goal)
	}
	var nv string
	switch method {
	case "Lock":
		oblige("acquire", mkEq(held, "0"), "Lock on a mutex this function already holds")
		nv = "(- 1)"
	case "Unlock":
		oblige("release", mkEq(held, "(- 1)"), "Unlock of a mutex that is not write-locked by this function")
		nv = "0"
	case "RLock":
		oblige("racquire", "(>= "+held+" 0)", "RLock while write-locked")
		nv = "(+ " + held + " 1)"
	case "RUnlock":
		oblige("rrelease", "(> "+held+" 0)", "RUnlock without RLock")
		nv = "(- " + held + " 1)"
	}
	return nil, fc.store(l, Val{T: "(mk." + dt + " " + nv + ")", S: cur.S, Typ: l.Typ})
}

// sort.Sort -------------------------------------------------------------------------------------

// condExec runs f on the paths where cond holds and merges the result with the state where it does not.
func (fc *FnCtx) condExec(cond string, tag string, f func() error) error {
	before := fc.cur.clone()
	fc.cur.reach = mkAnd(before.reach, cond)
	if err := f(); err != nil {
		return err
	}
	after := fc.cur
	before.reach = mkAnd(before.reach, mkNot(cond))
	fc.cur = fc.mergeStates([]*State{after, before}, []string{after.reach, before.reach}, tag)
	return nil
}

// sortThree: sort.Sort on exactly three elements, executed as Go's insertion sort (which pdqsort uses below 12
// elements) by inlining the collection's own Less and Swap methods.
func (fc *FnCtx) sortThree(coll Val, collT types.Type) error {
	fc.vc.trust("sort.Sort on fewer than 12 elements is insertion sort (go1.23 pdqsort), executed here with the collection's own Less/Swap")
	less := fc.prog.SSA.LookupMethod(collT, nil, "Less")
	swap := fc.prog.SSA.LookupMethod(collT, nil, "Swap")
	if less == nil || swap == nil {
		return unsupportedf("sort.Sort: Less/Swap of %s not found", collT)
	}
	lit := func(i int) Val { return Val{T: fmt.Sprintf("%d", i), S: SInt, Typ: types.Typ[types.Int]} }
	callLess := func(i, j int) (string, error) {
		v, err := fc.inline(less, []Val{coll, lit(i), lit(j)}, types.Typ[types.Bool])
		if err != nil {
			return "", err
		}
		n := fc.vc.fresh("less", "Bool")
		fc.vc.assert(mkEq(n, v.T))
		return n, nil
	}
	callSwap := func(i, j int) error {
		_, err := fc.inline(swap, []Val{coll, lit(i), lit(j)}, nil)
		return err
	}
	c1, err := callLess(1, 0)
	if err != nil {
		return err
	}
	if err := fc.condExec(c1, "sort1", func() error { return callSwap(1, 0) }); err != nil {
		return err
	}
	c2, err := callLess(2, 1)
	if err != nil {
		return err
	}
	return fc.condExec(c2, "sort2", func() error {
		if err := callSwap(2, 1); err != nil {
			return err
		}
		c3, err := callLess(1, 0)
		if err != nil {
			return err
		}
		return fc.condExec(c3, "sort3", func() error { return callSwap(1, 0) })
	})
}

func modelSortSort(fc *FnCtx, c *ssa.CallCommon, args []Val, rt types.Type) (*Val, error) {
	// the argument is an interface wrapping a slice type; we cannot see through the wrap in general: havoc the
	// element component of the wrapped slice type
	mi, ok := c.Args[0].(*ssa.MakeInterface)
	if !ok {
		fc.havocAll()
		return nil, nil
	}
	st, ok := mi.X.Type().Underlying().(*types.Slice)
	if !ok {
		fc.havocAll()
		return nil, nil
	}
	if top := fc.topCtx(); top.con != nil && top.con.SortLen == 3 {
		coll, err := fc.val(mi.X)
		if err != nil {
			return nil, err
		}
		fc.vc.oblige(&Obligation{Name: fc.oblName("pre", "sort.Sort[len3]"), Kind: "pre", Func: shortName(top.fn), Guard: fc.cur.reach,
			Goal: mkEq(proj("s-len", coll.T), "3"), Desc: "sort.Sort is modelled as 3-element insertion sort here: the collection must have exactly 3 elements"})
		fc.vc.assume(fc.cur.reach, mkEq(proj("s-len", coll.T), "3"))
		return nil, fc.sortThree(coll, mi.X.Type())
	}
	fc.vc.trust("sort.Sort permutes the elements of its argument (only 'same length, some permutation' is modelled)")
	s, err := fc.val(mi.X)
	if err != nil {
		return nil, err
	}
	fc.permute(s, st)
	return nil, nil
}

// modelShuffle: rand.Shuffle(n, slice.Swap) permutes the elements of the slice bound to the swap method value.
func (fc *FnCtx) modelShuffle(c *ssa.CallCommon) error {
	mc, ok := c.Args[1].(*ssa.MakeClosure)
	if !ok || len(mc.Bindings) != 1 {
		fc.havocAll()
		return nil
	}
	st, ok := mc.Bindings[0].Type().Underlying().(*types.Slice)
	if !ok {
		fc.havocAll()
		return nil
	}
	fc.vc.trust("rand.Shuffle(n, s.Swap) permutes the elements of s (some permutation)")
	s, err := fc.val(mc.Bindings[0])
	if err != nil {
		return err
	}
	fc.permute(s, st)
	return nil
}

// permute replaces the visible elements of slice s by an unknown permutation of themselves.
func (fc *FnCtx) permute(s Val, st *types.Slice) {
	comp := elemComp(st.Elem())
	srt := arraySort(arraySort(fc.sortStr(st.Elem())))
	old := fc.getComp(comp, srt)
	es := fc.sortStr(st.Elem())
	newArr := fc.vc.fresh("sorted", arraySort(es))
	arr := proj("s-arr", s.T)
	// permutation: every new element is one of the old elements and vice versa (existential, as index functions)
	fc.vc.nfresh++
	pf := fmt.Sprintf("perm!%d", fc.vc.nfresh)
	pinv := fmt.Sprintf("perminv!%d", fc.vc.nfresh)
	fc.vc.declareFun(pf, []string{"Int"}, "Int")
	fc.vc.declareFun(pinv, []string{"Int"}, "Int")
	lo := proj("s-off", s.T)
	hi := mkAdd(lo, proj("s-len", s.T))
	fc.vc.nfresh++
	q := fmt.Sprintf("q!p!%d", fc.vc.nfresh)
	inr := func(x string) string { return "(and (<= " + lo + " " + x + ") (< " + x + " " + hi + "))" }
	fc.vc.assume(fc.cur.reach, "(forall (("+q+" Int)) (! (=> "+inr(q)+" (and "+inr("("+pf+" "+q+")")+" (= ("+pinv+" ("+pf+" "+q+")) "+q+") (= (select "+newArr+" "+q+") (select "+sel(old, arr)+" ("+pf+" "+q+"))))) :pattern ((select "+newArr+" "+q+")) :pattern (("+pf+" "+q+"))))")
	fc.vc.assume(fc.cur.reach, "(forall (("+q+" Int)) (! (=> "+inr(q)+" (and "+inr("("+pinv+" "+q+")")+" (= ("+pf+" ("+pinv+" "+q+")) "+q+") (= (select "+newArr+" ("+pinv+" "+q+")) (select "+sel(old, arr)+" "+q+")))) :pattern (("+pinv+" "+q+")) :pattern ((select "+sel(old, arr)+" "+q+"))))")
	fc.vc.assume(fc.cur.reach, "(forall (("+q+" Int)) (! (=> (not "+inr(q)+") (= (select "+newArr+" "+q+") (select "+sel(old, arr)+" "+q+"))) :pattern ((select "+newArr+" "+q+"))))")
	fc.setComp(comp, srt, sto(old, arr, newArr))
	fc.lastSort = &sortInfo{perm: pf, newArr: newArr, slice: s}
}

type sortInfo struct {
	perm   string
	newArr string
	slice  Val
}

// ---------------------------------------------------------------------------------------------
// Go builtins

func (fc *FnCtx) execBuiltin(b *ssa.Builtin, c *ssa.CallCommon, args []Val, at ssa.Value, rt types.Type) (*Val, error) {
	set := func(v Val) (*Val, error) {
		if at != nil {
			fc.env[at] = v
		}
		return &v, nil
	}
	switch b.Name() {
	case "len", "cap":
		a := args[0]
		switch a.Typ.Underlying().(type) {
		case *types.Slice:
			f := "s-len"
			if b.Name() == "cap" {
				f = "s-cap"
			}
			return set(Val{T: proj(f, a.T), S: SInt, Typ: rt})
		case *types.Map:
			fc.touchMap(a.Typ)
			_, _, ml := mapComps(a.Typ)
			return set(Val{T: mkIte(mkEq(a.T, "0"), "0", sel(fc.getComp(ml, arraySort("Int")), a.T)), S: SInt, Typ: rt})
		case *types.Basic:
			fc.vc.declareFun("strlen", []string{"Int"}, "Int")
			fc.vc.assume(fc.cur.reach, "(>= (strlen "+a.T+") 0)")
			return set(Val{T: "(strlen " + a.T + ")", S: SInt, Typ: rt})
		case *types.Chan:
			v := fc.symbolic("chanlen", rt)
			fc.vc.assume(fc.cur.reach, "(>= "+v.T+" 0)")
			return set(v)
		case *types.Pointer, *types.Array:
			var at2 *types.Array
			if p, ok := a.Typ.Underlying().(*types.Pointer); ok {
				at2, _ = p.Elem().Underlying().(*types.Array)
			} else {
				at2 = a.Typ.Underlying().(*types.Array)
			}
			if at2 != nil {
				return set(Val{T: fmt.Sprintf("%d", at2.Len()), S: SInt, Typ: rt})
			}
		}
		return nil, unsupportedf("len of %s", a.Typ)
	case "append":
		v, err := fc.execAppend(c, args, rt)
		if err != nil {
			return nil, err
		}
		return set(*v)
	case "copy":
		return fc.execCopy(args, at, rt)
	case "delete":
		fc.mapDelete(args[0].Typ, args[0].T, args[1].T)
		return nil, nil
	case "close":
		ch := args[0].T
		fc.chanFact(args[0], nil)
		closed := fc.getComp("CN.closed", arraySort("Bool"))
		fc.safe("close", mkAnd(mkNot(mkEq(ch, "0")), mkNot(sel(closed, ch))), "close of nil or already closed channel")
		fc.setComp("CN.closed", arraySort("Bool"), sto(closed, ch, "true"))
		return nil, nil
	case "panic":
		fc.safe("panic", "false", "explicit panic reachable")
		return nil, nil
	case "print", "println":
		return nil, nil
	case "min", "max":
		t := args[0].T
		for _, a := range args[1:] {
			if b.Name() == "min" {
				t = "(ite (<= " + t + " " + a.T + ") " + t + " " + a.T + ")"
			} else {
				t = "(ite (>= " + t + " " + a.T + ") " + t + " " + a.T + ")"
			}
		}
		return set(Val{T: t, S: SInt, Typ: rt})
	case "ssa:wrapnilchk":
		return set(args[0])
	}
	return nil, unsupportedf("builtin %s", b.Name())
}

// execAppend models append(s, t...) with Go's real aliasing behaviour: in place iff the result fits the capacity.
func (fc *FnCtx) execAppend(c *ssa.CallCommon, args []Val, rt types.Type) (*Val, error) {
	s := args[0]
	st, ok := rt.Underlying().(*types.Slice)
	if !ok {
		return nil, unsupportedf("append result %s", rt)
	}
	if len(args) == 1 {
		return &s, nil
	}
	t := args[1]
	if isString(t.Typ) {
		return nil, unsupportedf("append(bytes, string...)")
	}
	et := st.Elem()
	es := fc.sortStr(et)
	comp := elemComp(et)
	srt := arraySort(arraySort(es))
	E := fc.getComp(comp, srt)
	sArr, sOff, sLen, sCap := proj("s-arr", s.T), proj("s-off", s.T), proj("s-len", s.T), proj("s-cap", s.T)
	tArr, tOff, tLen := proj("s-arr", t.T), proj("s-off", t.T), proj("s-len", t.T)
	// known small element count? (varargs array)
	k := -1
	if sl, ok := c.Args[1].(*ssa.Slice); ok {
		if al, ok := sl.X.(*ssa.Alloc); ok && sl.Low == nil && sl.High == nil {
			if at, ok := al.Type().(*types.Pointer).Elem().Underlying().(*types.Array); ok && at.Len() <= 4 {
				k = int(at.Len())
			}
		}
	}
	newLen := fc.vc.fresh("applen", "Int")
	fc.vc.assert(mkEq(newLen, mkAdd(sLen, tLen)))
	inPlace := fc.vc.fresh("inplace", "Bool")
	fc.vc.assert(mkEq(inPlace, "(<= "+newLen+" "+sCap+")"))
	fc.vc.splitCands = append(fc.vc.splitCands, splitCand{term: inPlace, tag: fc.vc.curTag})
	fresh := fc.newRef()
	newCap := fc.vc.fresh("appcap", "Int")
	fc.vc.assert("(>= " + newCap + " " + newLen + ")")
	src := sel(E, tArr)
	// in-place region content
	var inArr, frArr string
	if k >= 0 {
		inArr = sel(E, sArr)
		for i := 0; i < k; i++ {
			inArr = sto(inArr, mkAdd(mkAdd(sOff, sLen), fmt.Sprintf("%d", i)), sel(src, mkAdd(tOff, fmt.Sprintf("%d", i))))
		}
	} else {
		inArr = fc.vc.fresh("apparr", arraySort(es))
		fc.vc.nfresh++
		q := fmt.Sprintf("q!a!%d", fc.vc.nfresh)
		base := mkAdd(sOff, sLen)
		fc.vc.assert("(forall ((" + q + " Int)) (! (= (select " + inArr + " " + q + ") (ite (and (<= " + base + " " + q + ") (< " + q + " (+ " + base + " " + tLen + "))) (select " + src + " (+ " + tOff + " (- " + q + " " + base + "))) (select " + sel(E, sArr) + " " + q + "))) :pattern ((select " + inArr + " " + q + "))))")
	}
	// fresh region content: copy of s followed by t, at offset 0
	frArr = fc.vc.fresh("apparr", arraySort(es))
	{
		fc.vc.nfresh++
		q := fmt.Sprintf("q!a!%d", fc.vc.nfresh)
		fc.vc.assert("(forall ((" + q + " Int)) (! (=> (and (<= 0 " + q + ") (< " + q + " " + sLen + ")) (= (select " + frArr + " " + q + ") (select " + sel(E, sArr) + " (+ " + sOff + " " + q + ")))) :pattern ((select " + frArr + " " + q + "))))")
		if k >= 0 {
			for i := 0; i < k; i++ {
				fc.vc.assert(mkEq(sel(frArr, mkAdd(sLen, fmt.Sprintf("%d", i))), sel(src, mkAdd(tOff, fmt.Sprintf("%d", i)))))
			}
		} else {
			fc.vc.nfresh++
			q2 := fmt.Sprintf("q!a!%d", fc.vc.nfresh)
			fc.vc.assert("(forall ((" + q2 + " Int)) (! (=> (and (<= " + sLen + " " + q2 + ") (< " + q2 + " " + newLen + ")) (= (select " + frArr + " " + q2 + ") (select " + src + " (+ " + tOff + " (- " + q2 + " " + sLen + "))))) :pattern ((select " + frArr + " " + q2 + "))))")
		}
	}
	fc.setComp(comp, srt, mkIte(inPlace, sto(E, sArr, inArr), sto(E, fresh, frArr)))
	res := fc.vc.fresh("appended", "Slice")
	fc.vc.assert(mkEq(res, mkIte(inPlace, mkSlice(sArr, sOff, newLen, sCap), mkSlice(fresh, "0", newLen, newCap))))
	// lemma (a consequence of the definitions above), triggered on the OLD element term so that existential goals
	// about the appended slice find their witnesses: old elements keep their position
	{
		newE := fc.getComp(comp, srt)
		fc.vc.nfresh++
		q := fmt.Sprintf("q!ap!%d", fc.vc.nfresh)
		fc.vc.assert("(forall ((" + q + " Int)) (! (=> (and (<= " + sOff + " " + q + ") (< " + q + " (+ " + sOff + " " + sLen + "))) (= (select (select " + newE + " (s-arr " + res + ")) (+ (s-off " + res + ") (- " + q + " " + sOff + "))) (select (select " + E + " " + sArr + ") " + q + "))) :pattern ((select (select " + E + " " + sArr + ") " + q + ")) :qid append-keeps))")
	}
	return &Val{T: res, S: SSlice, Typ: rt}, nil
}

func (fc *FnCtx) execCopy(args []Val, at ssa.Value, rt types.Type) (*Val, error) {
	d, s := args[0], args[1]
	dt, ok := d.Typ.Underlying().(*types.Slice)
	if !ok {
		return nil, unsupportedf("copy into %s", d.Typ)
	}
	es := fc.sortStr(dt.Elem())
	comp := elemComp(dt.Elem())
	srt := arraySort(arraySort(es))
	E := fc.getComp(comp, srt)
	n := fc.vc.fresh("copied", "Int")
	dl := proj("s-len", d.T)
	var sl string
	if isString(s.Typ) {
		fc.vc.declareFun("strlen", []string{"Int"}, "Int")
		sl = "(strlen " + s.T + ")"
	} else {
		sl = proj("s-len", s.T)
	}
	fc.vc.assert(mkEq(n, "(ite (<= "+dl+" "+sl+") "+dl+" "+sl+")"))
	newArr := fc.vc.fresh("cparr", arraySort(es))
	dOff := proj("s-off", d.T)
	fc.vc.nfresh++
	q := fmt.Sprintf("q!c!%d", fc.vc.nfresh)
	var srcElem string
	if isString(s.Typ) {
		fc.vc.declareFun("strat", []string{"Int", "Int"}, "Int")
		srcElem = "(strat " + s.T + " (- " + q + " " + dOff + "))"
	} else {
		srcElem = sel(sel(E, proj("s-arr", s.T)), "(+ "+proj("s-off", s.T)+" (- "+q+" "+dOff+"))")
	}
	fc.vc.assert("(forall ((" + q + " Int)) (! (= (select " + newArr + " " + q + ") (ite (and (<= " + dOff + " " + q + ") (< " + q + " (+ " + dOff + " " + n + "))) " + srcElem + " (select " + sel(E, proj("s-arr", d.T)) + " " + q + "))) :pattern ((select " + newArr + " " + q + "))))")
	fc.setComp(comp, srt, sto(E, proj("s-arr", d.T), newArr))
	v := Val{T: n, S: SInt, Typ: rt}
	if at != nil {
		fc.env[at] = v
	}
	return &v, nil
}

// ---------------------------------------------------------------------------------------------
// channels

// chanFact records that a non-nil channel value is an object of its (bidirectional) channel type, so that channels
// of different element types never alias. qvars are the SMT variables bound at the point of use: a term that
// mentions one of them is skipped (the fact is only stated for ground terms).
func (fc *FnCtx) chanFact(ch Val, qvars []string) {
	ct, ok := ch.Typ.Underlying().(*types.Chan)
	if !ok || ch.T == "0" {
		return
	}
	ch.T = fc.vc.expandAbbr(ch.T)
	for _, q := range qvars {
		if strings.Contains(ch.T, q) {
			return
		}
	}
	fc.vc.declareFun("typeOf", []string{"Int"}, "Int")
	tid := fc.typeID(types.NewChan(types.SendRecv, ct.Elem()))
	key := "chanfact:" + ch.T
	if fc.vc.declSet[key] {
		return
	}
	fc.vc.declSet[key] = true
	fc.vc.assertGlobal(mkImplies(mkNot(mkEq(ch.T, "0")), mkEq("(typeOf "+ch.T+")", tid)))
}

func (fc *FnCtx) chanInit(r, capT string) {
	for _, c := range []struct{ n, s, v string }{{"CN.sent", "Int", "0"}, {"CN.recvd", "Int", "0"}, {"CN.closed", "Bool", "false"}, {"CN.cap", "Int", capT}} {
		fc.setComp(c.n, arraySort(c.s), sto(fc.getComp(c.n, arraySort(c.s)), r, c.v))
	}
}

func (fc *FnCtx) chanSend(ch Val, v Val, guard string) {
	ct := ch.Typ.Underlying().(*types.Chan)
	fc.chanFact(ch, nil)
	sent := fc.getComp("CN.sent", arraySort("Int"))
	closed := fc.getComp("CN.closed", arraySort("Bool"))
	save := fc.cur.reach
	fc.cur.reach = mkAnd(save, guard)
	fc.safe("send", mkNot(sel(closed, ch.T)), "send on closed channel")
	fc.cur.reach = save
	lc := "CL." + typeKey(ct.Elem())
	lsrt := arraySort(arraySort(fc.sortStr(ct.Elem())))
	L := fc.getComp(lc, lsrt)
	n := sel(sent, ch.T)
	fc.setComp(lc, lsrt, mkIte(guard, sto(L, ch.T, sto(sel(L, ch.T), n, v.T)), L))
	fc.setComp("CN.sent", arraySort("Int"), mkIte(guard, sto(sent, ch.T, mkAdd(n, "1")), sent))
}

func (fc *FnCtx) execSend(x *ssa.Send) error {
	ch, err := fc.val(x.Chan)
	if err != nil {
		return err
	}
	v, err := fc.val(x.X)
	if err != nil {
		return err
	}
	if v.Loc != nil {
		if v, err = fc.materialize(v); err != nil {
			return err
		}
	}
	fc.chanSend(ch, v, "true")
	return nil
}

func (fc *FnCtx) execRecv(x *ssa.UnOp, ch Val) error {
	ct := ch.Typ.Underlying().(*types.Chan)
	fc.chanFact(ch, nil)
	v := fc.symbolic(fc.name(x)+".rv", ct.Elem())
	recvd := fc.getComp("CN.recvd", arraySort("Int"))
	if x.CommaOk {
		// ok == false: the channel is closed and drained; nothing was received
		ok := fc.vc.fresh(fc.name(x)+".ok", "Bool")
		fc.setComp("CN.recvd", arraySort("Int"), sto(recvd, ch.T, mkAdd(sel(recvd, ch.T), mkIte(ok, "1", "0"))))
		fc.env[x] = Val{Typ: x.Type(), Tup: []Val{v, {T: ok, S: SBool, Typ: types.Typ[types.Bool]}}}
		return nil
	}
	fc.setComp("CN.recvd", arraySort("Int"), sto(recvd, ch.T, mkAdd(sel(recvd, ch.T), "1")))
	fc.noteRecv(ch, v, "true")
	fc.env[x] = v
	return nil
}

// ghLastRecv: the last value this goroutine received from a channel (reference-typed elements only). It is volatile:
// every modular call and every loop that receives havocs it, and it is outside every frame.
const ghLastRecv = "GH.lastrecv"

func (fc *FnCtx) noteRecv(ch, v Val, guard string) {
	if v.S != SInt || v.Tup != nil || v.Loc != nil {
		return
	}
	lr := fc.ghArr(ghLastRecv)
	fc.setComp(ghLastRecv, arraySort("Int"), mkIte(guard, sto(lr, ch.T, v.T), lr))
}

func (fc *FnCtx) havocLastRecv() {
	if _, ok := fc.cur.sorts[ghLastRecv]; !ok {
		return
	}
	fc.cur.heap[ghLastRecv] = fc.vc.fresh("H."+ghLastRecv, arraySort("Int"))
}

func (fc *FnCtx) execSelect(x *ssa.Select) error {
	idx := fc.vc.fresh(fc.name(x)+".idx", "Int")
	lo := "0"
	if !x.Blocking {
		lo = "(- 1)"
	}
	fc.vc.assert("(and (<= " + lo + " " + idx + ") (< " + idx + " " + fmt.Sprintf("%d", len(x.States)) + "))")
	ok := fc.vc.fresh(fc.name(x)+".ok", "Bool")
	tup := []Val{{T: idx, S: SInt, Typ: types.Typ[types.Int]}, {T: ok, S: SBool, Typ: types.Typ[types.Bool]}}
	for i, st := range x.States {
		ch, err := fc.val(st.Chan)
		if err != nil {
			return err
		}
		fc.chanFact(ch, nil)
		if st.Dir == types.SendOnly {
			v, err := fc.val(st.Send)
			if err != nil {
				return err
			}
			fc.chanSend(ch, v, mkEq(idx, fmt.Sprintf("%d", i)))
		} else {
			ct := ch.Typ.Underlying().(*types.Chan)
			rv := fc.symbolic(fmt.Sprintf("%s.r%d", fc.name(x), i), ct.Elem())
			fc.noteRecv(ch, rv, mkEq(idx, fmt.Sprintf("%d", i)))
			tup = append(tup, rv)
		}
	}
	fc.env[x] = Val{Typ: x.Type(), Tup: tup}
	return nil
}

func (fc *FnCtx) timeSince(t Val) string {
	fc.vc.declareFun("uf.timeSince", []string{string(t.S)}, "Int")
	r := "(uf.timeSince " + t.T + ")"
	return r
}
