package main

import (
	"fmt"
	"go/ast"
	"go/parser"
	"go/token"
	"go/types"
	"os"
	"path/filepath"
	"regexp"
	"strconv"
	"strings"

	"golang.org/x/tools/go/packages"
	"golang.org/x/tools/go/ssa"
)

// Clause is one requires/ensures/invariant/axiom expression.
type Clause struct {
	Assumed bool
	Tags    []string
	Label   string
	Expr    ast.Expr
	Src     string
	Pos     string
}

type LoopCon struct {
	N       int
	Invs    []Clause
	Mods    []ast.Expr
	ModHeap bool
}

type LetDef struct {
	Name string
	Expr ast.Expr
	Old  bool
}

type Contract struct {
	Name      string
	PkgPath   string
	Fn        *ssa.Function
	Trusted   bool // assumed, never verified (dependency or environment)
	IfaceKey  string
	Requires  []Clause
	Ensures   []Clause
	Lets      []LetDef
	Modifies  []ast.Expr
	ModGiven  bool
	ModAll    bool
	ModHeap   bool // modifies allheap: every component except ghost (GH.*) and channel (CN.*, CL.*) state
	Loops     map[int]*LoopCon
	Safety    []string // property tags that the no-panic obligations of this function carry; nil = safety off
	SafetyOn  bool
	Params    []string // for iface / trusted contracts without SSA body: parameter names
	Pos       string
	NoInline  bool
	Lock      string          // informational
	AssumePre []string        // labels of callee preconditions that are environment assumptions in this function (e.g. conformant traffic)
	Reveal    map[string]bool // opaque specification functions whose definition this function's proof may use
	DeadReturns int           // deadreturns N: at most N returns may be proved unreachable (dead code under the precondition)
	GhostIncs []GhostInc      // ghostinc "name" expr: on entry the named ghost counter of the object is incremented
	Lemmas    []Lemma         // intermediate assertions proved just before the listed calls and assumed afterwards
	SortLen   int             // sortlen 3: sort.Sort calls in this function sort exactly three elements (checked)
}

// GhostInc: a ghost assignment executed on entry of the function (counts calls per object; specification only).
type GhostInc struct {
	Name string
	Ref  ast.Expr
}

// Lemma: `lemma [label] before F, G: P` - P (over parameters, lets and old state) is proved in the state just before
// every direct call of F or G in the function body and is then available as an assumption (like an assert statement).
type Lemma struct {
	Clause
	Before []*ssa.Function
}

func (c *Contract) props() []string {
	seen := map[string]bool{}
	var out []string
	add := func(ts []string) {
		for _, t := range ts {
			if !seen[t] {
				seen[t] = true
				out = append(out, t)
			}
		}
	}
	for _, cl := range c.Requires {
		add(cl.Tags)
	}
	for _, cl := range c.Ensures {
		add(cl.Tags)
	}
	for _, l := range c.Loops {
		for _, cl := range l.Invs {
			add(cl.Tags)
		}
	}
	add(c.Safety)
	return out
}

type PureParam struct {
	Name string
	Type types.Type
}

type PureFunc struct {
	Name    string
	PkgPath string
	Params  []PureParam
	Ret     types.Type
	Body    ast.Expr // nil for uninterpreted functions
	Heap    bool     // heap-dependent recursive function (hfunc): uninterpreted symbol over the read components, unfolded at use
	Reads   []ast.Expr
	Opaque  bool // hfunc opaque: the definition is only visible in functions whose contract says `reveal name`
	Src     string
}

type ContractTable struct {
	ByFunc   map[*ssa.Function]*Contract
	Iface    map[string]*Contract // "pkgpath.Iface.Method"
	Pure     map[string]*PureFunc // pkgPath + "::" + name
	Axioms   map[string][]Clause  // per package
	Files    []string
	Assumed  []string // textual list of every trusted / iface / axiom / assume line (scan)
	Static   []*StaticCheck
	FuncType map[string]*Contract // named function type -> assumed contract of every value of that type
}

var kwRe = regexp.MustCompile(`^(func|trusted func|iface|pure func|hfunc|ufunc|axiom|requires|ensures|assumes|modifies|loop|invariant|safety|let|letold|noinline|params|lock|sortlen|static|functype|assumepre|lemma|reveal|ghostinc|deadreturns)\b`)
var tagRe = regexp.MustCompile(`^\[([A-Za-z0-9_,.\- ]+)\]\s*`)

type rawLine struct {
	text string
	pos  string
}

// loadContracts reads every *_verif.go contract file of the repository packages.
func (p *Program) loadContracts() error {
	ct := &ContractTable{ByFunc: map[*ssa.Function]*Contract{}, Iface: map[string]*Contract{}, Pure: map[string]*PureFunc{}, Axioms: map[string][]Clause{}, FuncType: map[string]*Contract{}}
	p.Cons = ct
	var firstErr error
	packages.Visit(p.Pkgs, nil, func(pkg *packages.Package) {
		if !p.RepoPkgs[pkg.PkgPath] {
			return
		}
		for _, f := range pkg.GoFiles {
			if !strings.HasSuffix(f, "_verif.go") {
				continue
			}
			if err := p.parseContractFile(pkg, f); err != nil && firstErr == nil {
				firstErr = err
			}
		}
	})
	return firstErr
}

func (p *Program) parseContractFile(pkg *packages.Package, file string) error {
	data, err := os.ReadFile(file)
	if err != nil {
		return err
	}
	ct := p.Cons
	ct.Files = append(ct.Files, file)
	base := filepath.Base(file)
	// join continuation lines into statements
	var stmts []rawLine
	for i, line := range strings.Split(string(data), "\n") {
		t := strings.TrimSpace(line)
		if !strings.HasPrefix(t, "//@") {
			continue
		}
		t = strings.TrimSpace(t[3:])
		if i := strings.Index(t, " //"); i >= 0 && !strings.Contains(t[i:], "\"") {
			t = strings.TrimSpace(t[:i])
		}
		if t == "" {
			continue
		}
		if kwRe.MatchString(t) || len(stmts) == 0 {
			stmts = append(stmts, rawLine{t, fmt.Sprintf("%s:%d", base, i+1)})
		} else {
			stmts[len(stmts)-1].text += " " + t
		}
	}
	var cur *Contract
	var curLoop *LoopCon
	for _, st := range stmts {
		kw := kwRe.FindString(st.text)
		rest := strings.TrimSpace(st.text[len(kw):])
		fail := func(format string, a ...interface{}) error {
			return fmt.Errorf("%s: %s", st.pos, fmt.Sprintf(format, a...))
		}
		parseClause := func() (Clause, error) {
			cl := Clause{Src: rest, Pos: st.pos}
			if m := tagRe.FindStringSubmatch(rest); m != nil {
				for _, t := range strings.Split(m[1], ",") {
					t = strings.TrimSpace(t)
					if strings.HasPrefix(t, "C") && len(t) >= 3 && t[1] >= '0' && t[1] <= '9' && !strings.Contains(t, ".") {
						cl.Tags = append(cl.Tags, t)
					} else if i := strings.Index(t, "."); i > 0 && strings.HasPrefix(t, "C") {
						cl.Tags = append(cl.Tags, t[:i])
						cl.Label = t
					} else {
						cl.Label = t
					}
				}
				rest = rest[len(m[0]):]
				cl.Src = rest
			}
			e, err := parser.ParseExpr(desugar(rest))
			if err != nil {
				return cl, fail("cannot parse %q: %v", rest, err)
			}
			cl.Expr = e
			return cl, nil
		}
		switch kw {
		case "func", "trusted func":
			fn, err := p.resolveFuncName(pkg.PkgPath, rest)
			if err != nil {
				return fail("%v", err)
			}
			cur = &Contract{Name: rest, PkgPath: pkg.PkgPath, Fn: fn, Trusted: kw == "trusted func", Loops: map[int]*LoopCon{}, Pos: st.pos}
			if cur.Trusted {
				ct.Assumed = append(ct.Assumed, fmt.Sprintf("%s: trusted contract for %s", st.pos, rest))
			}
			if _, dup := ct.ByFunc[fn]; dup {
				return fail("duplicate contract for %s", rest)
			}
			ct.ByFunc[fn] = cur
			curLoop = nil
		case "iface":
			cur = &Contract{Name: rest, PkgPath: pkg.PkgPath, Trusted: true, IfaceKey: rest, Loops: map[int]*LoopCon{}, Pos: st.pos}
			ct.Iface[rest] = cur
			ct.Assumed = append(ct.Assumed, fmt.Sprintf("%s: assumed interface contract %s", st.pos, rest))
			curLoop = nil
		case "static":
			sc, err := parseStatic(pkg.PkgPath, rest, st.pos)
			if err != nil {
				return fail("%v", err)
			}
			ct.Static = append(ct.Static, sc)
			cur, curLoop = nil, nil
		case "functype":
			cur = &Contract{Name: rest, PkgPath: pkg.PkgPath, Trusted: true, IfaceKey: rest, Loops: map[int]*LoopCon{}, Pos: st.pos}
			ct.FuncType[pkg.PkgPath+"."+rest] = cur
			ct.Assumed = append(ct.Assumed, fmt.Sprintf("%s: every function value of type %s is assumed to satisfy its functype contract", st.pos, rest))
			curLoop = nil
		case "params":
			if cur == nil {
				return fail("params outside contract")
			}
			for _, n := range strings.Split(rest, ",") {
				cur.Params = append(cur.Params, strings.TrimSpace(n))
			}
		case "pure func", "ufunc":
			pf, err := p.parsePure(pkg, rest, kw == "ufunc")
			if err != nil {
				return fail("%v", err)
			}
			ct.Pure[pkg.PkgPath+"::"+pf.Name] = pf
			if kw == "ufunc" {
				ct.Assumed = append(ct.Assumed, fmt.Sprintf("%s: uninterpreted spec function %s", st.pos, pf.Name))
			}
			cur, curLoop = nil, nil
		case "axiom":
			cl, err := parseClause()
			if err != nil {
				return err
			}
			ct.Axioms[pkg.PkgPath] = append(ct.Axioms[pkg.PkgPath], cl)
			ct.Assumed = append(ct.Assumed, fmt.Sprintf("%s: axiom %s", st.pos, cl.Src))
			cur, curLoop = nil, nil
		case "lock":
			if cur != nil {
				cur.Lock = rest
			}
		case "assumepre":
			if cur != nil {
				cur.AssumePre = append(cur.AssumePre, strings.Fields(rest)...)
				ct.Assumed = append(ct.Assumed, fmt.Sprintf("%s: in %s the callee precondition(s) %s are assumed (environment: protocol-conformant traffic), not checked", st.pos, cur.Name, rest))
			}
		case "sortlen":
			if cur != nil {
				cur.SortLen, _ = strconv.Atoi(rest)
			}
		case "deadreturns":
			if cur == nil {
				return fail("deadreturns outside contract")
			}
			cur.DeadReturns, _ = strconv.Atoi(strings.TrimSpace(rest))
		case "ghostinc":
			if cur == nil {
				return fail("ghostinc outside contract")
			}
			f := strings.SplitN(rest, " ", 2)
			if len(f) != 2 {
				return fail("ghostinc \"name\" expr")
			}
			e, err := parser.ParseExpr(strings.TrimSpace(f[1]))
			if err != nil {
				return fail("ghostinc: %v", err)
			}
			cur.GhostIncs = append(cur.GhostIncs, GhostInc{Name: strings.Trim(f[0], "\""), Ref: e})
		case "reveal":
			if cur == nil {
				return fail("reveal outside contract")
			}
			if cur.Reveal == nil {
				cur.Reveal = map[string]bool{}
			}
			for _, n := range strings.Split(rest, ",") {
				cur.Reveal[strings.TrimSpace(n)] = true
			}
		case "hfunc":
			opaque := false
			if strings.HasPrefix(rest, "opaque ") {
				opaque = true
				rest = strings.TrimSpace(strings.TrimPrefix(rest, "opaque "))
			}
			// `hfunc opaque f(...) T reads ...` without a body: an uninterpreted function of the components read
			pf, err := p.parsePure(pkg, rest, opaque && !strings.Contains(rest, " = "))
			if err != nil {
				return fail("%v", err)
			}
			pf.Heap = true
			pf.Opaque = opaque
			ct.Pure[pkg.PkgPath+"::"+pf.Name] = pf
			cur, curLoop = nil, nil
		case "assumes":
			if cur == nil {
				return fail("assumes outside contract")
			}
			cl, err := parseClause()
			if err != nil {
				return err
			}
			cl.Assumed = true
			cur.Ensures = append(cur.Ensures, cl)
			ct.Assumed = append(ct.Assumed, fmt.Sprintf("%s: assumed (unchecked) postcondition of %s: %s", st.pos, cur.Name, cl.Src))
		case "requires", "ensures", "invariant":
			if cur == nil {
				return fail("%s outside contract", kw)
			}
			cl, err := parseClause()
			if err != nil {
				return err
			}
			switch kw {
			case "requires":
				cur.Requires = append(cur.Requires, cl)
			case "ensures":
				cur.Ensures = append(cur.Ensures, cl)
			case "invariant":
				if curLoop == nil {
					return fail("invariant outside loop")
				}
				curLoop.Invs = append(curLoop.Invs, cl)
			}
		case "lemma":
			if cur == nil {
				return fail("lemma outside contract")
			}
			lm := Lemma{}
			if m := tagRe.FindStringSubmatch(rest); m != nil {
				// keep the tag for parseClause; find "before ... :" after it
			}
			bi := strings.Index(rest, "before ")
			ci := strings.Index(rest, ": ")
			if bi < 0 || ci < bi {
				return fail("lemma needs `before F, G: expr`")
			}
			for _, n := range splitTopLevel(rest[bi+len("before "):ci], ",") {
				fn, err := p.resolveFuncName(pkg.PkgPath, strings.TrimSpace(n))
				if err != nil {
					return fail("lemma: %v", err)
				}
				lm.Before = append(lm.Before, fn)
			}
			rest = rest[:bi] + rest[ci+2:]
			cl, err := parseClause()
			if err != nil {
				return err
			}
			lm.Clause = cl
			cur.Lemmas = append(cur.Lemmas, lm)
		case "let", "letold":
			if cur == nil {
				return fail("let outside contract")
			}
			i := strings.Index(rest, "=")
			if i < 0 {
				return fail("let needs name = expr")
			}
			e, err := parser.ParseExpr(desugar(strings.TrimSpace(rest[i+1:])))
			if err != nil {
				return fail("cannot parse let: %v", err)
			}
			cur.Lets = append(cur.Lets, LetDef{Name: strings.TrimSpace(rest[:i]), Expr: e, Old: true})
		case "modifies":
			if cur == nil {
				return fail("modifies outside contract")
			}
			var target *[]ast.Expr
			if curLoop != nil {
				target = &curLoop.Mods
			} else {
				target = &cur.Modifies
				cur.ModGiven = true
			}
			if rest == "nothing" {
				break
			}
			if rest == "all" {
				if curLoop == nil {
					cur.ModAll = true
				}
				break
			}
			if strings.HasPrefix(rest, "allheap") {
				// everything except ghost streams/counters (GH.*) and channel state (CN.*, CL.*)
				if curLoop != nil {
					curLoop.ModHeap = true
				} else {
					cur.ModHeap = true
				}
				rest = strings.TrimSpace(strings.TrimPrefix(strings.TrimPrefix(rest, "allheap"), ","))
				if rest == "" {
					break
				}
			}
			e, err := parser.ParseExpr("f(" + rest + ")")
			if err != nil {
				return fail("cannot parse modifies %q: %v", rest, err)
			}
			*target = append(*target, e.(*ast.CallExpr).Args...)
		case "loop":
			if cur == nil {
				return fail("loop outside contract")
			}
			n, err := strconv.Atoi(strings.Fields(rest)[0])
			if err != nil {
				return fail("loop needs an ordinal")
			}
			curLoop = &LoopCon{N: n}
			cur.Loops[n] = curLoop
		case "safety":
			if cur == nil {
				return fail("safety outside contract")
			}
			cur.SafetyOn = true
			if m := tagRe.FindStringSubmatch(rest); m != nil {
				for _, t := range strings.Split(m[1], ",") {
					cur.Safety = append(cur.Safety, strings.TrimSpace(t))
				}
			}
		case "noinline":
			if cur != nil {
				cur.NoInline = true
			}
		default:
			return fail("unrecognised contract line: %s", st.text)
		}
	}
	return nil
}

// parsePure parses `name(a T, b U) R = expr` or (ufunc) `name(a T, b U) R`.
func (p *Program) parsePure(pkg *packages.Package, text string, uninterp bool) (*PureFunc, error) {
	body := ""
	sig := text
	if !uninterp {
		// split at the first " = " that is outside parentheses
		d := 0
		idx := -1
		for i := 0; i < len(text)-2; i++ {
			switch text[i] {
			case '(':
				d++
			case ')':
				d--
			case ' ':
				if d == 0 && text[i+1] == '=' && text[i+2] == ' ' {
					idx = i
				}
			}
			if idx >= 0 {
				break
			}
		}
		if idx < 0 {
			return nil, fmt.Errorf("pure func needs ' = ' : %s", text)
		}
		sig = text[:idx]
		body = strings.TrimSpace(text[idx+3:])
	}
	readsTxt := ""
	if i := strings.Index(sig, " reads "); i >= 0 {
		readsTxt = strings.TrimSpace(sig[i+7:])
		sig = sig[:i]
	}
	e, err := parser.ParseExpr("func " + sig[strings.Index(sig, "("):] + "{}")
	if err != nil {
		return nil, fmt.Errorf("cannot parse signature %q: %v", sig, err)
	}
	fl := e.(*ast.FuncLit)
	pf := &PureFunc{Name: strings.TrimSpace(sig[:strings.Index(sig, "(")]), PkgPath: pkg.PkgPath, Src: text}
	for _, f := range fl.Type.Params.List {
		t, err := resolveType(pkg, f.Type)
		if err != nil {
			return nil, err
		}
		for _, n := range f.Names {
			pf.Params = append(pf.Params, PureParam{n.Name, t})
		}
	}
	if fl.Type.Results == nil || len(fl.Type.Results.List) != 1 {
		return nil, fmt.Errorf("pure func %s needs exactly one result type", pf.Name)
	}
	rt, err := resolveType(pkg, fl.Type.Results.List[0].Type)
	if err != nil {
		return nil, err
	}
	pf.Ret = rt
	if readsTxt != "" {
		e, err := parser.ParseExpr("f(" + readsTxt + ")")
		if err != nil {
			return nil, fmt.Errorf("cannot parse reads %q: %v", readsTxt, err)
		}
		pf.Reads = e.(*ast.CallExpr).Args
	}
	if !uninterp {
		b, err := parser.ParseExpr(desugar(body))
		if err != nil {
			return nil, fmt.Errorf("cannot parse body of %s: %v", pf.Name, err)
		}
		pf.Body = b
	}
	return pf, nil
}

// resolveType resolves a type expression in the scope of a package (imports are found by package name).
func resolveType(pkg *packages.Package, e ast.Expr) (types.Type, error) {
	switch x := e.(type) {
	case *ast.Ident:
		if o := types.Universe.Lookup(x.Name); o != nil {
			if tn, ok := o.(*types.TypeName); ok {
				return tn.Type(), nil
			}
		}
		if o := pkg.Types.Scope().Lookup(x.Name); o != nil {
			if tn, ok := o.(*types.TypeName); ok {
				return tn.Type(), nil
			}
		}
		return nil, fmt.Errorf("unknown type %s", x.Name)
	case *ast.StarExpr:
		t, err := resolveType(pkg, x.X)
		if err != nil {
			return nil, err
		}
		return types.NewPointer(t), nil
	case *ast.ArrayType:
		t, err := resolveType(pkg, x.Elt)
		if err != nil {
			return nil, err
		}
		if x.Len == nil {
			return types.NewSlice(t), nil
		}
		if bl, ok := x.Len.(*ast.BasicLit); ok {
			n, _ := strconv.Atoi(bl.Value)
			return types.NewArray(t, int64(n)), nil
		}
		return nil, fmt.Errorf("unsupported array length")
	case *ast.MapType:
		k, err := resolveType(pkg, x.Key)
		if err != nil {
			return nil, err
		}
		v, err := resolveType(pkg, x.Value)
		if err != nil {
			return nil, err
		}
		return types.NewMap(k, v), nil
	case *ast.ChanType:
		t, err := resolveType(pkg, x.Value)
		if err != nil {
			return nil, err
		}
		return types.NewChan(types.SendRecv, t), nil
	case *ast.SelectorExpr:
		id, ok := x.X.(*ast.Ident)
		if !ok {
			return nil, fmt.Errorf("unsupported type expression")
		}
		var found *types.Package
		var walk func(q *packages.Package, depth int)
		seen := map[string]bool{}
		walk = func(q *packages.Package, depth int) {
			if found != nil || seen[q.PkgPath] || depth > 3 {
				return
			}
			seen[q.PkgPath] = true
			for _, imp := range q.Imports {
				if imp.Name == id.Name && found == nil {
					found = imp.Types
				}
			}
			for _, imp := range q.Imports {
				walk(imp, depth+1)
			}
		}
		walk(pkg, 0)
		if found == nil {
			return nil, fmt.Errorf("unknown package %s in type", id.Name)
		}
		o := found.Scope().Lookup(x.Sel.Name)
		if tn, ok := o.(*types.TypeName); ok {
			return tn.Type(), nil
		}
		return nil, fmt.Errorf("unknown type %s.%s", id.Name, x.Sel.Name)
	case *ast.InterfaceType:
		return types.NewInterfaceType(nil, nil), nil
	}
	return nil, fmt.Errorf("unsupported type expression %T", e)
}

var _ = token.NoPos

// desugar rewrites the infix operators `A ==> B` (right associative, lowest precedence) and `A <==> B` into the
// intrinsics implies(A, B) / iff(A, B), so that the rest is plain Go expression syntax.
func desugar(s string) string {
	parts := splitTopLevel(s, ",")
	for i, p := range parts {
		parts[i] = desugarOne(p)
	}
	return strings.Join(parts, ",")
}

func desugarOne(s string) string {
	if l, r, ok := cutTopLevel(s, "<==>"); ok {
		return "iff(" + desugarOne(l) + ", " + desugarOne(r) + ")"
	}
	if l, r, ok := cutTopLevel(s, "==>"); ok {
		return "implies(" + desugarOne(l) + ", " + desugarOne(r) + ")"
	}
	// recurse into bracketed groups
	var b strings.Builder
	i := 0
	for i < len(s) {
		c := s[i]
		if c == '"' {
			j := i + 1
			for j < len(s) && s[j] != '"' {
				j++
			}
			b.WriteString(s[i:min(j+1, len(s))])
			i = j + 1
			continue
		}
		if c == '(' || c == '[' {
			closer := byte(')')
			if c == '[' {
				closer = ']'
			}
			d := 0
			j := i
			for ; j < len(s); j++ {
				if s[j] == c {
					d++
				} else if s[j] == closer {
					d--
					if d == 0 {
						break
					}
				}
			}
			if j >= len(s) {
				b.WriteString(s[i:])
				break
			}
			b.WriteByte(c)
			b.WriteString(desugar(s[i+1 : j]))
			b.WriteByte(closer)
			i = j + 1
			continue
		}
		b.WriteByte(c)
		i++
	}
	return b.String()
}

func splitTopLevel(s, sep string) []string {
	var out []string
	d := 0
	start := 0
	inStr := false
	for i := 0; i < len(s); i++ {
		c := s[i]
		if c == '"' {
			inStr = !inStr
		}
		if inStr {
			continue
		}
		switch c {
		case '(', '[', '{':
			d++
		case ')', ']', '}':
			d--
		}
		if d == 0 && strings.HasPrefix(s[i:], sep) {
			out = append(out, s[start:i])
			start = i + len(sep)
			i += len(sep) - 1
		}
	}
	return append(out, s[start:])
}

func cutTopLevel(s, op string) (string, string, bool) {
	d := 0
	inStr := false
	for i := 0; i < len(s); i++ {
		c := s[i]
		if c == '"' {
			inStr = !inStr
		}
		if inStr {
			continue
		}
		switch c {
		case '(', '[', '{':
			d++
		case ')', ']', '}':
			d--
		}
		if d == 0 && strings.HasPrefix(s[i:], op) {
			if op == "==>" && i > 0 && s[i-1] == '<' {
				continue
			}
			return s[:i], s[i+len(op):], true
		}
	}
	return "", "", false
}
