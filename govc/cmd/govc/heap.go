package main

import (
	"fmt"
	"go/types"
	"sort"
	"strings"
)

// State is the symbolic machine state at a program point: the current version (an SMT term) of every heap
// component and the reachability condition of the point.
type State struct {
	heap  map[string]string
	sorts map[string]string // shared registry: component -> SMT sort
	epoch int               // bumped by havoc-all: unseen components get a new base constant
	reach string
}

func (s *State) clone() *State {
	n := &State{heap: make(map[string]string, len(s.heap)), sorts: s.sorts, epoch: s.epoch, reach: s.reach}
	for k, v := range s.heap {
		n.heap[k] = v
	}
	return n
}

const (
	locField = iota
	locElem
	locBox
	locObj
	locGlobal
	locConst // immutable local struct copy: Ref holds the value term
)

type pathStep struct {
	structType types.Type
	field      int
}

// Loc is an address: a heap component cell plus a projection path into nested struct values.
type Loc struct {
	Kind int
	Comp string
	Ref  string // object reference (field/box/obj) or backing array (elem)
	Idx  string // element index (elem)
	Path []pathStep
	Typ  types.Type // type of the addressed value
}

func arraySort(elem string) string { return "(Array Int " + elem + ")" }

// component names ------------------------------------------------------------------------------

func fieldComp(structT types.Type, fname string) string {
	return "F." + typeKey(structT) + "." + smtIdent(fname)
}
func elemComp(elemT types.Type) string { return "E." + typeKey(elemT) }
func boxComp(t types.Type) string      { return "B." + typeKey(t) }
func mapComps(mapT types.Type) (string, string, string) {
	k := typeKey(mapT)
	return "MH." + k, "MV." + k, "ML." + k
}

// baseName is the constant that stands for a component nobody has written since the last havoc-all.
func baseName(comp string, epoch int) string {
	return fmt.Sprintf("H.%s@%d", comp, epoch)
}

func (fc *FnCtx) getComp(comp, sort string) string {
	st := fc.cur
	if t, ok := st.heap[comp]; ok {
		return t
	}
	n := fc.baseConst(st, comp, sort)
	st.heap[comp] = n
	return n
}

// baseConst declares (once) the constant standing for a component nobody has written since the last havoc-all,
// together with its typing closure: every cell of an allocated object holds a well-typed value.
func (fc *FnCtx) baseConst(st *State, comp, sort string) string {
	st.sorts[comp] = sort
	n := baseName(comp, st.epoch)
	if fc.vc.declSet[n] {
		return n
	}
	fc.vc.declare(n, sort)
	if comp == "alloc" {
		if st.epoch == 0 {
			fc.vc.assertGlobal("(>= " + n + " 0)")
		}
		return n
	}
	if st.epoch == 0 {
		a := baseName("alloc", 0)
		fc.vc.declare(a, "Int")
		fc.vc.frontier[n] = a
		if useClosureAxioms {
			fc.vc.assertGlobal(fc.closure(n, comp, a))
		}
	}
	return n
}

// closure: forall allocated r: the content of comp at r is well typed with respect to the frontier.
func (fc *FnCtx) closure(term, comp, frontier string) string {
	vc := fc.vc
	if comp == ghTeeSrc || comp == ghTeeDst {
		// ghost tee structure: sources and destinations of allocated readers are allocated objects
		vc.nfresh++
		r := fmt.Sprintf("q!cl!%d", vc.nfresh)
		return "(forall ((" + r + " Int)) (! (=> (and (<= 0 " + r + ") (<= " + r + " " + frontier + ")) (and (<= 0 (select " + term + " " + r + ")) (<= (select " + term + " " + r + ") " + frontier + "))) :pattern ((select " + term + " " + r + ")) :qid cl.tee))"
	}
	et := compElemType(vc, comp)
	if et == nil {
		return "true"
	}
	if _, isBasic := et.Underlying().(*types.Basic); isBasic {
		return "true" // scalar cells: their ranges are assumed at each load instead
	}
	vc.nfresh++
	r := fmt.Sprintf("q!cl!%d", vc.nfresh)
	switch {
	case strings.HasPrefix(comp, "F."), strings.HasPrefix(comp, "B."):
		wt := fc.wellTyped("(select "+term+" "+r+")", et, frontier, 1)
		if wt == "true" {
			return "true"
		}
		return "(forall ((" + r + " Int)) (! (=> (and (<= 0 " + r + ") (<= " + r + " " + frontier + ")) " + wt + ") :pattern ((select " + term + " " + r + ")) :qid cl." + smtIdent(comp) + "))"
	case strings.HasPrefix(comp, "E."), strings.HasPrefix(comp, "CL."):
		i := r + "i"
		wt := fc.wellTyped("(select (select "+term+" "+r+") "+i+")", et, frontier, 1)
		if wt == "true" {
			return "true"
		}
		return "(forall ((" + r + " Int) (" + i + " Int)) (! (=> (and (<= 0 " + r + ") (<= " + r + " " + frontier + ")) " + wt + ") :pattern ((select (select " + term + " " + r + ") " + i + ")) :qid cl." + smtIdent(comp) + "))"
	case strings.HasPrefix(comp, "MV."):
		mt, ok := typeByKey(comp[3:]).Underlying().(*types.Map)
		if !ok {
			return "true"
		}
		i := r + "k"
		wt := fc.wellTyped("(select (select "+term+" "+r+") "+i+")", mt.Elem(), frontier, 1)
		if wt == "true" {
			return "true"
		}
		return "(forall ((" + r + " Int) (" + i + " " + fc.sortStr(mt.Key()) + ")) (! (=> (and (<= 0 " + r + ") (<= " + r + " " + frontier + ")) " + wt + ") :pattern ((select (select " + term + " " + r + ") " + i + "))))"
	case strings.HasPrefix(comp, "ML."):
		return "(forall ((" + r + " Int)) (! (>= (select " + term + " " + r + ") 0) :pattern ((select " + term + " " + r + "))))"
	case comp == "CN.sent" || comp == "CN.recvd" || comp == "CN.cap":
		return "(forall ((" + r + " Int)) (! (>= (select " + term + " " + r + ") 0) :pattern ((select " + term + " " + r + "))))"
	}
	return "true"
}

// compElemType recovers the Go type stored in the cells of a component from its name.
func compElemType(vc *VC, comp string) types.Type {
	switch {
	case strings.HasPrefix(comp, "F."):
		rest := comp[2:]
		i := strings.LastIndex(rest, ".")
		if i < 0 {
			return nil
		}
		st := typeByKey(rest[:i])
		if st == nil {
			return nil
		}
		if _, ok := st.Underlying().(*types.Struct); !ok {
			return nil
		}
		for _, f := range vc.fieldsOf(st) {
			if smtIdent(f.name) == rest[i+1:] {
				return f.typ // nil for ghost fields
			}
		}
		return nil
	case strings.HasPrefix(comp, "B."):
		return typeByKey(comp[2:])
	case strings.HasPrefix(comp, "E."):
		return typeByKey(comp[2:])
	case strings.HasPrefix(comp, "CL."):
		return typeByKey(comp[3:])
	}
	return nil
}

// compAt returns the version of a component in a given state (used for old()).
func (fc *FnCtx) compAt(st *State, comp, sort string) string {
	if fc.vc.compTrace != nil {
		fc.vc.compTrace[comp] = true
	}
	if t, ok := st.heap[comp]; ok {
		return t
	}
	return fc.baseConst(st, comp, sort)
}

// havocComp replaces a component by a fresh version that is well typed with respect to the given frontier.
func (fc *FnCtx) havocComp(comp, sort, frontier string) string {
	n := fc.vc.fresh("H."+comp, sort)
	fc.cur.sorts[comp] = sort
	fc.cur.heap[comp] = n
	if !fc.noClosure {
		fc.vc.frontier[n] = frontier
		if useClosureAxioms {
			fc.vc.assume(fc.cur.reach, fc.closure(n, comp, frontier))
		}
	}
	return n
}

// useClosureAxioms: quantified typing closures per component version. Off: the same facts are added as ground
// assumptions at each load (see loadFact), which avoids tens of thousands of quantifier instantiations.
const useClosureAxioms = true

func (fc *FnCtx) setComp(comp, sort, term string) {
	fc.cur.sorts[comp] = sort
	fc.noteWrite(comp)
	// name the new version to keep terms small
	if len(term) > 40 {
		n := fc.vc.fresh("H."+comp, sort)
		fc.vc.assert(mkEq(n, term))
		term = n
	}
	if comp != "alloc" {
		// everything stored so far is well typed for the current frontier
		fc.vc.frontier[term] = fc.alloc()
	}
	fc.cur.heap[comp] = term
}

// loadFact: the value read from an allocated cell of a component version is well typed for that version's
// frontier (ground instance of the typing closure).
func (fc *FnCtx) loadFact(l *Loc, st *State, v string) {
	var compTerm, ref string
	switch l.Kind {
	case locField, locBox:
		compTerm = fc.compAt(st, l.Comp, arraySort(fc.sortStr(l.rootType())))
		ref = l.Ref
	case locElem:
		compTerm = fc.compAt(st, l.Comp, arraySort(arraySort(fc.sortStr(l.rootType()))))
		ref = l.Ref
	default:
		return
	}
	f, ok := fc.vc.frontier[compTerm]
	if !ok {
		return
	}
	wt := fc.wellTyped(v, l.Typ, f, 1)
	if wt == "true" {
		return
	}
	fc.vc.assume(fc.cur.reach, mkImplies("(and (<= 0 "+ref+") (<= "+ref+" "+f+"))", wt))
}

func (fc *FnCtx) alloc() string { return fc.getComp("alloc", "Int") }

// newRef allocates a fresh reference above the allocation frontier.
func (fc *FnCtx) newRef() string {
	a := fc.alloc()
	r := fc.vc.fresh("ref", "Int")
	fc.vc.assert(mkEq(r, mkAdd(a, "1")))
	fc.cur.heap["alloc"] = r
	return r
}

// ---------------------------------------------------------------------------------------------

func (fc *FnCtx) sortStr(t types.Type) string { return string(fc.vc.sortOf(t)) }

// derefLoc turns a pointer value into the location it points to.
func (fc *FnCtx) derefLoc(p Val) (*Loc, error) {
	if p.Loc != nil {
		return p.Loc, nil
	}
	pt, ok := p.Typ.Underlying().(*types.Pointer)
	if !ok {
		return nil, fmt.Errorf("deref of non-pointer %s", p.Typ)
	}
	el := pt.Elem()
	if _, ok := el.Underlying().(*types.Struct); ok {
		return &Loc{Kind: locObj, Ref: p.T, Typ: el}, nil
	}
	return &Loc{Kind: locBox, Comp: boxComp(el), Ref: p.T, Typ: el}, nil
}

func (fc *FnCtx) fieldLoc(base Val, idx int) (*Loc, error) {
	pt, ok := base.Typ.Underlying().(*types.Pointer)
	if !ok {
		return nil, fmt.Errorf("FieldAddr on non-pointer %s", base.Typ)
	}
	st := pt.Elem()
	sst, ok := st.Underlying().(*types.Struct)
	if !ok {
		return nil, fmt.Errorf("FieldAddr on pointer to non-struct")
	}
	f := sst.Field(idx)
	if isGhostStruct(st) {
		return nil, fmt.Errorf("field access into ghost-modelled struct %s", st)
	}
	if base.Loc != nil && base.Loc.Kind == locConst && len(base.Loc.Path) == 0 {
		return &Loc{Kind: locConst, Ref: base.Loc.Ref, Path: []pathStep{{st, idx}}, Typ: f.Type()}, nil
	}
	if base.Loc != nil && base.Loc.Kind != locObj {
		l := *base.Loc
		l.Path = append(append([]pathStep{}, base.Loc.Path...), pathStep{st, idx})
		l.Typ = f.Type()
		return &l, nil
	}
	ref := base.T
	if base.Loc != nil {
		ref = base.Loc.Ref
	}
	return &Loc{Kind: locField, Comp: fieldComp(st, f.Name()), Ref: ref, Typ: f.Type()}, nil
}

// loadObj builds the struct value stored at an object reference.
func (fc *FnCtx) loadObj(st *State, ref string, t types.Type) string {
	dt := string(fc.vc.sortOf(t))
	var parts []string
	for _, f := range fc.vc.fieldsOf(t) {
		c := fieldComp(t, f.name)
		parts = append(parts, sel(fc.compAt(st, c, arraySort(string(f.sort))), ref))
	}
	if len(parts) == 0 {
		parts = []string{"0"}
	}
	return "(mk." + dt + " " + strings.Join(parts, " ") + ")"
}

func (fc *FnCtx) projPath(v string, path []pathStep) string {
	for _, ps := range path {
		dt := string(fc.vc.sortOf(ps.structType))
		f := fc.vc.fieldsOf(ps.structType)[ps.field]
		v = "(" + structProj(dt, f.name) + " " + v + ")"
	}
	return v
}

// updPath returns outer with the value at path replaced by nv.
func (fc *FnCtx) updPath(outer string, path []pathStep, nv string) string {
	if len(path) == 0 {
		return nv
	}
	ps := path[0]
	dt := string(fc.vc.sortOf(ps.structType))
	fs := fc.vc.fieldsOf(ps.structType)
	var parts []string
	for i, f := range fs {
		p := "(" + structProj(dt, f.name) + " " + outer + ")"
		if i == ps.field {
			p = fc.updPath(p, path[1:], nv)
		}
		parts = append(parts, p)
	}
	return "(mk." + dt + " " + strings.Join(parts, " ") + ")"
}

// rootType is the type stored in the component cell a location is rooted in.
func (l *Loc) rootType() types.Type {
	if len(l.Path) > 0 {
		return l.Path[0].structType
	}
	return l.Typ
}

func (fc *FnCtx) loadAt(st *State, l *Loc) (string, error) {
	switch l.Kind {
	case locObj:
		return fc.loadObj(st, l.Ref, l.Typ), nil
	case locField, locBox:
		c := fc.compAt(st, l.Comp, arraySort(fc.sortStr(l.rootType())))
		return fc.projPath(sel(c, l.Ref), l.Path), nil
	case locElem:
		c := fc.compAt(st, l.Comp, arraySort(arraySort(fc.sortStr(l.rootType()))))
		return fc.projPath(sel(sel(c, l.Ref), l.Idx), l.Path), nil
	case locGlobal:
		c := fc.compAt(st, l.Comp, fc.sortStr(l.rootType()))
		return fc.projPath(c, l.Path), nil
	case locConst:
		return fc.projPath(l.Ref, l.Path), nil
	}
	return "", fmt.Errorf("bad loc")
}

func (fc *FnCtx) load(l *Loc) (Val, error) {
	// make sure lazily created components exist in the current state
	t, err := fc.loadAt(fc.cur, l)
	if err != nil {
		return Val{}, err
	}
	fc.touch(l)
	fc.loadFact(l, fc.cur, t)
	return Val{T: t, S: fc.vc.sortOf(l.Typ), Typ: l.Typ}, nil
}

// touch registers the components of a location in the current state so that later merges see them.
func (fc *FnCtx) touch(l *Loc) {
	switch l.Kind {
	case locObj:
		for _, f := range fc.vc.fieldsOf(l.Typ) {
			fc.getComp(fieldComp(l.Typ, f.name), arraySort(string(f.sort)))
		}
	case locField, locBox:
		fc.getComp(l.Comp, arraySort(fc.sortStr(l.rootType())))
	case locElem:
		fc.getComp(l.Comp, arraySort(arraySort(fc.sortStr(l.rootType()))))
	case locGlobal:
		fc.getComp(l.Comp, fc.sortStr(l.rootType()))
	}
}

func (fc *FnCtx) store(l *Loc, v Val) error {
	if v.Loc != nil {
		mv, err := fc.materialize(v)
		if err != nil {
			return err
		}
		v = mv
	}
	switch l.Kind {
	case locObj:
		dt := string(fc.vc.sortOf(l.Typ))
		for _, f := range fc.vc.fieldsOf(l.Typ) {
			c := fieldComp(l.Typ, f.name)
			srt := arraySort(string(f.sort))
			fc.setComp(c, srt, sto(fc.getComp(c, srt), l.Ref, "("+structProj(dt, f.name)+" "+v.T+")"))
		}
	case locField, locBox:
		srt := arraySort(fc.sortStr(l.rootType()))
		c := fc.getComp(l.Comp, srt)
		nv := v.T
		if len(l.Path) > 0 {
			nv = fc.updPath(sel(c, l.Ref), l.Path, v.T)
		}
		fc.setComp(l.Comp, srt, sto(c, l.Ref, nv))
	case locElem:
		srt := arraySort(arraySort(fc.sortStr(l.rootType())))
		c := fc.getComp(l.Comp, srt)
		nv := v.T
		if len(l.Path) > 0 {
			nv = fc.updPath(sel(sel(c, l.Ref), l.Idx), l.Path, v.T)
		}
		fc.setComp(l.Comp, srt, sto(c, l.Ref, sto(sel(c, l.Ref), l.Idx, nv)))
	case locGlobal:
		srt := fc.sortStr(l.rootType())
		c := fc.getComp(l.Comp, srt)
		nv := v.T
		if len(l.Path) > 0 {
			nv = fc.updPath(c, l.Path, v.T)
		}
		fc.setComp(l.Comp, srt, nv)
	default:
		return fmt.Errorf("bad loc")
	}
	return nil
}

// materialize turns an interior pointer into a first-class reference. Only pointers to value-opaque data
// (byte arrays such as Hash32, scalars) are supported: the result is an immutable snapshot box.
func (fc *FnCtx) materialize(v Val) (Val, error) {
	if v.Loc == nil {
		return v, nil
	}
	l := v.Loc
	if l.Kind == locObj {
		return Val{T: l.Ref, S: SInt, Typ: v.Typ}, nil
	}
	if l.Kind == locBox && len(l.Path) == 0 {
		return Val{T: l.Ref, S: SInt, Typ: v.Typ}, nil
	}
	if _, isStruct := l.Typ.Underlying().(*types.Struct); isStruct {
		return Val{}, fmt.Errorf("interior pointer to struct %s escapes (unsupported)", l.Typ)
	}
	cur, err := fc.load(l)
	if err != nil {
		return Val{}, err
	}
	// snapshot box: a reference whose box content equals the current value. The reference is a function of the
	// location so that two materialisations of the same address compare equal.
	r := fc.newRef()
	bc := boxComp(l.Typ)
	srt := arraySort(fc.sortStr(l.Typ))
	fc.setComp(bc, srt, sto(fc.getComp(bc, srt), r, cur.T))
	fc.vc.trust("interior pointers to scalar/byte-array fields that escape are modelled as immutable snapshot boxes")
	return Val{T: r, S: SInt, Typ: v.Typ}, nil
}

// wellTyped is the typing invariant of a value relative to an allocation frontier.
func (fc *FnCtx) wellTyped(v string, t types.Type, alloc string, depth int) string {
	switch u := t.Underlying().(type) {
	case *types.Basic:
		if u.Info()&types.IsInteger != 0 {
			if depth > 0 && (u.Kind() == types.Int || u.Kind() == types.Int64) {
				return "true" // int/int64 are mathematical: their range is never needed for stored fields
			}
			return intRange(t, v)
		}
		return "true"
	case *types.Pointer, *types.Map, *types.Chan:
		return "(and (<= 0 " + v + ") (<= " + v + " " + alloc + "))"
	case *types.Slice:
		return "(and (<= 0 (s-arr " + v + ")) (<= (s-arr " + v + ") " + alloc + ") (<= 0 (s-off " + v + ")) (<= 0 (s-len " + v + ")) (<= (s-len " + v + ") (s-cap " + v +
			")) (=> (= (s-arr " + v + ") 0) (= (s-cap " + v + ") 0)))"
	case *types.Struct:
		if depth > 2 {
			return "true"
		}
		dt := string(fc.vc.sortOf(t))
		var parts []string
		for _, f := range fc.vc.fieldsOf(t) {
			if f.typ == nil {
				continue
			}
			parts = append(parts, fc.wellTyped("("+structProj(dt, f.name)+" "+v+")", f.typ, alloc, depth+1))
		}
		return mkAnd(parts...)
	case *types.Interface, *types.Signature:
		// interface and function values are references to (boxed) objects that exist already
		return "(and (<= 0 " + v + ") (<= " + v + " " + alloc + "))"
	}
	return "true"
}

// mergeStates joins several predecessor states; conds[i] is the condition under which states[i] flows in.
func (fc *FnCtx) mergeStates(states []*State, conds []string, tag string) *State {
	if len(states) == 1 {
		s := states[0].clone()
		s.reach = conds[0]
		return s
	}
	out := &State{heap: map[string]string{}, sorts: states[0].sorts}
	maxEpoch := 0
	for _, s := range states {
		if s.epoch > maxEpoch {
			maxEpoch = s.epoch
		}
	}
	out.epoch = maxEpoch
	keys := map[string]bool{}
	for _, s := range states {
		for k := range s.heap {
			keys[k] = true
		}
	}
	var ks []string
	for k := range keys {
		ks = append(ks, k)
	}
	sort.Strings(ks)
	var merged []string
	rc := fc.vc.fresh("reach."+tag, "Bool")
	fc.vc.assert(mkEq(rc, mkOr(conds...)))
	out.reach = rc
	for _, k := range ks {
		srt := out.sorts[k]
		var terms []string
		same := true
		for _, s := range states {
			t, ok := s.heap[k]
			if !ok {
				t = baseName(k, s.epoch)
				fc.vc.declare(t, srt)
			}
			terms = append(terms, t)
			if t != terms[0] {
				same = false
			}
		}
		if same {
			out.heap[k] = terms[0]
			continue
		}
		n := fc.vc.fresh("H."+k, srt)
		t := terms[len(terms)-1]
		for i := len(terms) - 2; i >= 0; i-- {
			t = mkIte(conds[i], terms[i], t)
		}
		fc.vc.assert(mkEq(n, t))
		out.heap[k] = n
		if k != "alloc" {
			merged = append(merged, n)
		}
	}
	if a, ok := out.heap["alloc"]; ok {
		for _, n := range merged {
			fc.vc.frontier[n] = a // alloc is monotone: the merged frontier bounds every incoming one
		}
	}
	// components missing in `out` but with differing epochs fall back to their base constants of maxEpoch;
	// states with a lower epoch that never touched them would disagree, so pin them explicitly.
	return out
}
