package main

import (
	"crypto/sha256"
	"encoding/hex"
	"fmt"
	"go/ast"
	"go/constant"
	"go/token"
	"go/types"
	"os"
	"strconv"
	"strings"

	"golang.org/x/tools/go/ssa"
)

// SpecEnv evaluates contract expressions (Go expression syntax with intrinsics) to SMT terms in a given state.
type SpecEnv struct {
	fc      *FnCtx
	pkgPath string
	vars    map[string]Val
	st      *State // state heap reads refer to
	old     *State // state old(...) refers to
	depth   int
	qvars   []string       // bound SMT variables of enclosing quantifiers (innermost last)
	loop    *loopInfo      // loop whose invariant is being evaluated (for atentry / sameregion)
	bound   map[string]Val // variables bound by enclosing quantifiers
	fuel    int            // fuel of heap-dependent recursive function applications (when fuelSet)
	fuelSet bool
	pats    *[]string // pattern candidates of the innermost quantifier
}

var untypedNil = types.Typ[types.UntypedNil]
var tInt = types.Typ[types.Int]
var tBool = types.Typ[types.Bool]

func (se *SpecEnv) sub() *SpecEnv {
	n := *se
	n.vars = make(map[string]Val, len(se.vars))
	for k, v := range se.vars {
		n.vars[k] = v
	}
	n.bound = make(map[string]Val, len(se.bound))
	for k, v := range se.bound {
		n.bound[k] = v
	}
	return &n
}

func (se *SpecEnv) boolExpr(e ast.Expr) (string, error) {
	v, err := se.expr(e)
	if err != nil {
		return "", err
	}
	if v.S != SBool {
		return "", fmt.Errorf("expected a boolean expression, got sort %s in %s", v.S, exprString(e))
	}
	return v.T, nil
}

func exprString(e ast.Expr) string {
	return types.ExprString(e)
}

func (se *SpecEnv) pkgTypes() *types.Package {
	if sp := se.fc.prog.SSAPkgs[se.pkgPath]; sp != nil {
		return sp.Pkg
	}
	return nil
}

func (se *SpecEnv) notePattern(term string) {
	if se.pats == nil || len(se.qvars) == 0 {
		return
	}
	term = se.fc.vc.expandAbbr(term)
	qv := se.qvars[len(se.qvars)-1]
	if !containsToken(term, qv) {
		return
	}
	for _, p := range *se.pats {
		if p == term {
			return
		}
	}
	*se.pats = append(*se.pats, term)
}

func containsToken(term, tok string) bool {
	for _, t := range strings.FieldsFunc(term, func(r rune) bool { return r == ' ' || r == '(' || r == ')' }) {
		if t == tok {
			return true
		}
	}
	return false
}

func (se *SpecEnv) expr(e ast.Expr) (Val, error) {
	fc := se.fc
	switch x := e.(type) {
	case *ast.ParenExpr:
		return se.expr(x.X)
	case *ast.BasicLit:
		switch x.Kind {
		case token.INT:
			v := constant.MakeFromLiteral(x.Value, token.INT, 0)
			return Val{T: bigLit(v.ExactString()), S: SInt, Typ: tInt}, nil
		case token.STRING:
			s, _ := strconv.Unquote(x.Value)
			return Val{T: fc.vc.strLit(s), S: SInt, Typ: types.Typ[types.String]}, nil
		}
		return Val{}, fmt.Errorf("unsupported literal %s", x.Value)
	case *ast.Ident:
		return se.ident(x.Name)
	case *ast.SelectorExpr:
		// package-qualified identifier?
		if id, ok := x.X.(*ast.Ident); ok {
			if _, isVar := se.vars[id.Name]; !isVar {
				if pkg := se.findImport(id.Name); pkg != nil {
					return se.pkgMember(pkg, x.Sel.Name)
				}
			}
		}
		base, err := se.expr(x.X)
		if err != nil {
			return Val{}, err
		}
		return se.selectField(base, x.Sel.Name)
	case *ast.StarExpr:
		p, err := se.expr(x.X)
		if err != nil {
			return Val{}, err
		}
		l, err := fc.derefLoc(p)
		if err != nil {
			return Val{}, err
		}
		t, err := fc.loadAt(se.st, l)
		if err != nil {
			return Val{}, err
		}
		return Val{T: t, S: fc.vc.sortOf(l.Typ), Typ: l.Typ}, nil
	case *ast.IndexExpr:
		base, err := se.expr(x.X)
		if err != nil {
			return Val{}, err
		}
		idx, err := se.expr(x.Index)
		if err != nil {
			return Val{}, err
		}
		switch bt := base.Typ.Underlying().(type) {
		case *types.Slice:
			c := fc.compAt(se.st, elemComp(bt.Elem()), arraySort(arraySort(fc.sortStr(bt.Elem()))))
			t := sel(sel(c, proj("s-arr", base.T)), mkAdd(proj("s-off", base.T), idx.T))
			se.notePattern(t)
			return Val{T: t, S: fc.vc.sortOf(bt.Elem()), Typ: bt.Elem()}, nil
		case *types.Map:
			t := fc.mapGet(se.st, base.Typ, base.T, idx.T)
			se.notePattern(t)
			return Val{T: t, S: fc.vc.sortOf(bt.Elem()), Typ: bt.Elem()}, nil
		case *types.Array:
			fn := "arrat." + typeKey(base.Typ)
			fc.vc.declareFun(fn, []string{"Int", "Int"}, fc.sortStr(bt.Elem()))
			return Val{T: "(" + fn + " " + base.T + " " + idx.T + ")", S: fc.vc.sortOf(bt.Elem()), Typ: bt.Elem()}, nil
		}
		return Val{}, fmt.Errorf("cannot index %s", base.Typ)
	case *ast.UnaryExpr:
		v, err := se.expr(x.X)
		if err != nil {
			return Val{}, err
		}
		switch x.Op {
		case token.NOT:
			return Val{T: mkNot(v.T), S: SBool, Typ: tBool}, nil
		case token.SUB:
			return Val{T: mkSub("0", v.T), S: SInt, Typ: v.Typ}, nil
		}
		return Val{}, fmt.Errorf("unsupported unary %s", x.Op)
	case *ast.BinaryExpr:
		return se.binary(x)
	case *ast.CallExpr:
		return se.call(x)
	}
	return Val{}, fmt.Errorf("unsupported spec expression %T: %s", e, exprString(e))
}

func (se *SpecEnv) findImport(name string) *types.Package {
	pt := se.pkgTypes()
	if pt == nil {
		return nil
	}
	for _, imp := range pt.Imports() {
		if imp.Name() == name {
			return imp
		}
	}
	// transitively (two levels) so that contracts can mention e.g. wire or bitcoin from either package
	for _, imp := range pt.Imports() {
		for _, imp2 := range imp.Imports() {
			if imp2.Name() == name {
				return imp2
			}
		}
	}
	return nil
}

func (se *SpecEnv) pkgMember(pkg *types.Package, name string) (Val, error) {
	fc := se.fc
	o := pkg.Scope().Lookup(name)
	switch ob := o.(type) {
	case *types.Const:
		return constToVal(fc, ob.Val(), ob.Type())
	case *types.Var:
		sp := fc.prog.SSAPkgs[pkg.Path()]
		if sp == nil {
			return Val{}, fmt.Errorf("package %s not loaded", pkg.Path())
		}
		g, ok := sp.Members[name].(*ssa.Global)
		if !ok {
			return Val{}, fmt.Errorf("%s.%s is not a variable", pkg.Name(), name)
		}
		if !fc.prog.isImmutableGlobal(g) {
			t := g.Type().(*types.Pointer).Elem()
			c := fc.compAt(se.st, "G."+smtIdent(g.Pkg.Pkg.Path()+"."+g.Name()), fc.sortStr(t))
			return Val{T: c, S: fc.vc.sortOf(t), Typ: t}, nil
		}
		return fc.globalConst(g), nil
	}
	return Val{}, fmt.Errorf("unknown member %s.%s", pkg.Name(), name)
}

func constToVal(fc *FnCtx, v constant.Value, t types.Type) (Val, error) {
	switch v.Kind() {
	case constant.Int:
		return Val{T: bigLit(v.ExactString()), S: SInt, Typ: t}, nil
	case constant.Bool:
		if constant.BoolVal(v) {
			return Val{T: "true", S: SBool, Typ: t}, nil
		}
		return Val{T: "false", S: SBool, Typ: t}, nil
	case constant.String:
		return Val{T: fc.vc.strLit(constant.StringVal(v)), S: SInt, Typ: t}, nil
	}
	return Val{}, fmt.Errorf("unsupported constant kind")
}

func (se *SpecEnv) ident(name string) (Val, error) {
	if v, ok := se.vars[name]; ok {
		return v, nil
	}
	switch name {
	case "nil":
		return Val{T: "0", S: SInt, Typ: untypedNil}, nil
	case "true":
		return Val{T: "true", S: SBool, Typ: tBool}, nil
	case "false":
		return Val{T: "false", S: SBool, Typ: tBool}, nil
	}
	if pt := se.pkgTypes(); pt != nil {
		if pt.Scope().Lookup(name) != nil {
			return se.pkgMember(pt, name)
		}
	}
	return Val{}, fmt.Errorf("unknown identifier %q", name)
}

func (se *SpecEnv) selectField(base Val, name string) (Val, error) {
	fc := se.fc
	t := base.Typ
	if base.Loc != nil {
		return Val{}, fmt.Errorf("field selection on interior pointer")
	}
	if pt, ok := t.Underlying().(*types.Pointer); ok {
		st := pt.Elem()
		ss, ok := st.Underlying().(*types.Struct)
		if !ok {
			return Val{}, fmt.Errorf("%s is not a pointer to struct", t)
		}
		// promoted fields through embedded structs are not supported; direct fields only
		for _, f := range fc.vc.fieldsOf(st) {
			if f.name == name {
				c := fc.compAt(se.st, fieldComp(st, f.name), arraySort(string(f.sort)))
				term := sel(c, base.T)
				se.notePattern(term)
				ft := f.typ
				if ft == nil {
					ft = tInt
				}
				return Val{T: term, S: f.sort, Typ: ft}, nil
			}
		}
		_ = ss
		return Val{}, fmt.Errorf("no field %s in %s", name, st)
	}
	if _, ok := t.Underlying().(*types.Struct); ok {
		dt := string(fc.vc.sortOf(t))
		for i, f := range fc.vc.fieldsOf(t) {
			if f.name == name {
				ft := f.typ
				if ft == nil {
					ft = tInt
				}
				// projection of a constructor application simplifies at generation time
				if strings.HasPrefix(base.T, "(mk."+dt+" ") {
					parts := splitTop(base.T[1 : len(base.T)-1])
					if len(parts) == len(fc.vc.fieldsOf(t))+1 {
						se.notePattern(parts[i+1])
						return Val{T: parts[i+1], S: f.sort, Typ: ft}, nil
					}
				}
				return Val{T: "(" + structProj(dt, f.name) + " " + base.T + ")", S: f.sort, Typ: ft}, nil
			}
		}
		return Val{}, fmt.Errorf("no field %s in %s", name, t)
	}
	return Val{}, fmt.Errorf("cannot select .%s on %s", name, t)
}

func (se *SpecEnv) binary(x *ast.BinaryExpr) (Val, error) {
	a, err := se.expr(x.X)
	if err != nil {
		return Val{}, err
	}
	b, err := se.expr(x.Y)
	if err != nil {
		return Val{}, err
	}
	// nil comparisons against slices
	cmpTerm := func(v Val, other Val) string {
		if v.Loc != nil {
			return "1" // an interior pointer is never nil
		}
		if v.S == SSlice && other.Typ == untypedNil {
			return proj("s-arr", v.T)
		}
		return v.T
	}
	rt := a.Typ
	if rt == untypedNil || (rt == tInt && b.Typ != nil && b.Typ != untypedNil) {
		rt = b.Typ
	}
	switch x.Op {
	case token.LAND:
		return Val{T: mkAnd(a.T, b.T), S: SBool, Typ: tBool}, nil
	case token.LOR:
		return Val{T: mkOr(a.T, b.T), S: SBool, Typ: tBool}, nil
	case token.EQL:
		return Val{T: mkEq(cmpTerm(a, b), cmpTerm(b, a)), S: SBool, Typ: tBool}, nil
	case token.NEQ:
		return Val{T: mkNot(mkEq(cmpTerm(a, b), cmpTerm(b, a))), S: SBool, Typ: tBool}, nil
	case token.LSS:
		return Val{T: "(< " + a.T + " " + b.T + ")", S: SBool, Typ: tBool}, nil
	case token.LEQ:
		return Val{T: "(<= " + a.T + " " + b.T + ")", S: SBool, Typ: tBool}, nil
	case token.GTR:
		return Val{T: "(> " + a.T + " " + b.T + ")", S: SBool, Typ: tBool}, nil
	case token.GEQ:
		return Val{T: "(>= " + a.T + " " + b.T + ")", S: SBool, Typ: tBool}, nil
	case token.ADD:
		return Val{T: mkAdd(a.T, b.T), S: SInt, Typ: rt}, nil
	case token.SUB:
		return Val{T: mkSub(a.T, b.T), S: SInt, Typ: rt}, nil
	case token.MUL:
		return Val{T: "(* " + a.T + " " + b.T + ")", S: SInt, Typ: rt}, nil
	case token.QUO:
		return Val{T: "(div " + a.T + " " + b.T + ")", S: SInt, Typ: rt}, nil
	case token.REM:
		return Val{T: "(mod " + a.T + " " + b.T + ")", S: SInt, Typ: rt}, nil
	}
	return Val{}, fmt.Errorf("unsupported binary operator %s", x.Op)
}

func (se *SpecEnv) call(x *ast.CallExpr) (Val, error) {
	fc := se.fc
	name := ""
	if id, ok := x.Fun.(*ast.Ident); ok {
		name = id.Name
	} else {
		// conversion such as bitcoin.Hash32(x) is not supported
		return Val{}, fmt.Errorf("unsupported call %s", exprString(x.Fun))
	}
	argc := func(n int) error {
		if len(x.Args) != n {
			return fmt.Errorf("%s expects %d arguments", name, n)
		}
		return nil
	}
	switch name {
	case "old":
		if err := argc(1); err != nil {
			return Val{}, err
		}
		s := se.sub()
		s.st = se.old
		return s.expr(x.Args[0])
	case "implies", "iff":
		if err := argc(2); err != nil {
			return Val{}, err
		}
		a, err := se.boolExpr(x.Args[0])
		if err != nil {
			return Val{}, err
		}
		b, err := se.boolExpr(x.Args[1])
		if err != nil {
			return Val{}, err
		}
		if name == "iff" {
			return Val{T: mkEq(a, b), S: SBool, Typ: tBool}, nil
		}
		return Val{T: mkImplies(a, b), S: SBool, Typ: tBool}, nil
	case "ite":
		if err := argc(3); err != nil {
			return Val{}, err
		}
		c, err := se.boolExpr(x.Args[0])
		if err != nil {
			return Val{}, err
		}
		a, err := se.expr(x.Args[1])
		if err != nil {
			return Val{}, err
		}
		b, err := se.expr(x.Args[2])
		if err != nil {
			return Val{}, err
		}
		r := a
		if a.Typ == untypedNil {
			r = b
		}
		at, bt := a.T, b.T
		if a.S == SSlice && b.Typ == untypedNil {
			bt = mkSlice("0", "0", "0", "0")
		}
		if b.S == SSlice && a.Typ == untypedNil {
			at = mkSlice("0", "0", "0", "0")
		}
		r.T = mkIte(c, at, bt)
		return r, nil
	case "len", "cap":
		if err := argc(1); err != nil {
			return Val{}, err
		}
		v, err := se.expr(x.Args[0])
		if err != nil {
			return Val{}, err
		}
		switch v.Typ.Underlying().(type) {
		case *types.Slice:
			if name == "cap" {
				return Val{T: proj("s-cap", v.T), S: SInt, Typ: tInt}, nil
			}
			return Val{T: proj("s-len", v.T), S: SInt, Typ: tInt}, nil
		case *types.Map:
			_, _, ml := mapComps(v.Typ)
			return Val{T: sel(fc.compAt(se.st, ml, arraySort("Int")), v.T), S: SInt, Typ: tInt}, nil
		case *types.Basic:
			fc.vc.declareFun("strlen", []string{"Int"}, "Int")
			return Val{T: "(strlen " + v.T + ")", S: SInt, Typ: tInt}, nil
		case *types.Chan:
			return Val{}, fmt.Errorf("len of channel not modelled")
		}
		return Val{}, fmt.Errorf("len of %s", v.Typ)
	case "arr", "off":
		v, err := se.expr(x.Args[0])
		if err != nil {
			return Val{}, err
		}
		if v.S != SSlice {
			return Val{}, fmt.Errorf("%s needs a slice", name)
		}
		return Val{T: proj("s-"+name, v.T), S: SInt, Typ: tInt}, nil
	case "has":
		if err := argc(2); err != nil {
			return Val{}, err
		}
		m, err := se.expr(x.Args[0])
		if err != nil {
			return Val{}, err
		}
		k, err := se.expr(x.Args[1])
		if err != nil {
			return Val{}, err
		}
		if _, ok := m.Typ.Underlying().(*types.Map); !ok {
			return Val{}, fmt.Errorf("has needs a map")
		}
		mt := m.Typ.Underlying().(*types.Map)
		ks, _ := fc.mapSorts(mt)
		mh, _, _ := mapComps(m.Typ)
		h := fc.compAt(se.st, mh, arraySort("(Array "+ks+" Bool)"))
		se.notePattern(sel(sel(h, m.T), k.T))
		return Val{T: fc.mapHas(se.st, m.Typ, m.T, k.T), S: SBool, Typ: tBool}, nil
	case "mapupd", "mapsame":
		// mapupd(m, k, v): the map m now is old(m) with m[k] = v (and nothing else changed); mapsame(m): unchanged.
		// Stated as array equalities, so no quantifier over keys is needed.
		m, err := se.expr(x.Args[0])
		if err != nil {
			return Val{}, err
		}
		mt, ok := m.Typ.Underlying().(*types.Map)
		if !ok {
			return Val{}, fmt.Errorf("%s needs a map", name)
		}
		ks, vs := fc.mapSorts(mt)
		mh, mv, ml := mapComps(m.Typ)
		hs, vsrt := arraySort("(Array "+ks+" Bool)"), arraySort("(Array "+ks+" "+vs+")")
		hNow, hOld := fc.compAt(se.st, mh, hs), fc.compAt(se.old, mh, hs)
		vNow, vOld := fc.compAt(se.st, mv, vsrt), fc.compAt(se.old, mv, vsrt)
		lNow, lOld := fc.compAt(se.st, ml, arraySort("Int")), fc.compAt(se.old, ml, arraySort("Int"))
		if name == "mapsame" {
			return Val{T: mkAnd(mkEq(sel(hNow, m.T), sel(hOld, m.T)), mkEq(sel(vNow, m.T), sel(vOld, m.T)), mkEq(sel(lNow, m.T), sel(lOld, m.T))), S: SBool, Typ: tBool}, nil
		}
		if err := argc(3); err != nil {
			return Val{}, err
		}
		k, err := se.expr(x.Args[1])
		if err != nil {
			return Val{}, err
		}
		v, err := se.expr(x.Args[2])
		if err != nil {
			return Val{}, err
		}
		return Val{T: mkAnd(mkEq(sel(hNow, m.T), sto(sel(hOld, m.T), k.T, "true")), mkEq(sel(vNow, m.T), sto(sel(vOld, m.T), k.T, v.T)),
			mkEq(sel(lNow, m.T), mkIte(sel(sel(hOld, m.T), k.T), sel(lOld, m.T), mkAdd(sel(lOld, m.T), "1")))), S: SBool, Typ: tBool}, nil
	case "bigv":
		if err := argc(1); err != nil {
			return Val{}, err
		}
		p, err := se.expr(x.Args[0])
		if err != nil {
			return Val{}, err
		}
		c := fc.compAt(se.st, "F.math.big.Int.v", arraySort("Int"))
		return Val{T: sel(c, p.T), S: SInt, Typ: tInt}, nil
	case "atentry":
		// value of an expression when the loop was entered
		if se.loop == nil {
			return Val{}, fmt.Errorf("atentry outside a loop invariant")
		}
		s := se.sub()
		s.st = se.loop.inState
		s.vars = fc.nameEnvAt(se.loop, se.loop.phiIn)
		for k, v := range fc.letVals {
			if _, ok := s.vars[k]; !ok {
				s.vars[k] = v
			}
		}
		for k, v := range se.bound {
			s.vars[k] = v
		}
		return s.expr(x.Args[0])
	case "sameregion":
		// the slice still lives in the backing array it had at loop entry, or in one allocated since
		if se.loop == nil {
			return Val{}, fmt.Errorf("sameregion outside a loop invariant")
		}
		now, err := se.expr(x.Args[0])
		if err != nil {
			return Val{}, err
		}
		s := se.sub()
		s.st = se.loop.inState
		s.vars = fc.nameEnvAt(se.loop, se.loop.phiIn)
		for k, v := range se.bound {
			s.vars[k] = v
		}
		then, err := s.expr(x.Args[0])
		if err != nil {
			return Val{}, err
		}
		if now.S != SSlice {
			return Val{}, fmt.Errorf("sameregion needs a slice")
		}
		return Val{T: mkOr(mkEq(proj("s-arr", now.T), proj("s-arr", then.T)), "(> "+proj("s-arr", now.T)+" "+se.loop.inAlloc+")"), S: SBool, Typ: tBool}, nil
	case "loopfresh":
		if se.loop == nil {
			return Val{}, fmt.Errorf("loopfresh outside a loop invariant")
		}
		p, err := se.expr(x.Args[0])
		if err != nil {
			return Val{}, err
		}
		t := p.T
		if p.S == SSlice {
			t = proj("s-arr", p.T)
		}
		return Val{T: "(> " + t + " " + se.loop.inAlloc + ")", S: SBool, Typ: tBool}, nil
	case "fresh":
		p, err := se.expr(x.Args[0])
		if err != nil {
			return Val{}, err
		}
		a := fc.compAt(se.old, "alloc", "Int")
		t := p.T
		if p.S == SSlice {
			t = proj("s-arr", p.T)
		}
		return Val{T: "(> " + t + " " + a + ")", S: SBool, Typ: tBool}, nil
	case "allocated":
		p, err := se.expr(x.Args[0])
		if err != nil {
			return Val{}, err
		}
		a := fc.compAt(se.st, "alloc", "Int")
		t := p.T
		if p.S == SSlice {
			t = proj("s-arr", p.T)
		}
		return Val{T: "(<= " + t + " " + a + ")", S: SBool, Typ: tBool}, nil
	case "hashOf":
		p, err := se.expr(x.Args[0])
		if err != nil {
			return Val{}, err
		}
		pt, ok := p.Typ.Underlying().(*types.Pointer)
		if !ok {
			return Val{}, fmt.Errorf("hashOf needs a *wire.BlockHeader")
		}
		ht := pt.Elem()
		return Val{T: fc.hashOfHeader(se.st, p.T, ht), S: SInt, Typ: fc.hash32Type()}, nil
	case "errFrom":
		// errFrom(e, F): the cause of e was created by errors.New / fmt.Errorf inside function F
		if err := argc(2); err != nil {
			return Val{}, err
		}
		p, err := se.expr(x.Args[0])
		if err != nil {
			return Val{}, err
		}
		fn, err := fc.prog.resolveFuncName(se.pkgPath, exprString(x.Args[1]))
		if err != nil {
			return Val{}, err
		}
		fc.vc.declareFun("cause", []string{"Int"}, "Int")
		fc.vc.declareFun("uf.errOrigin", []string{"Int"}, "Int")
		return Val{T: mkAnd(mkNot(mkEq(p.T, "0")), mkEq("(uf.errOrigin (cause "+p.T+"))", fc.vc.originID(fn.String()))), S: SBool, Typ: tBool}, nil
	case "nochange":
		// every allocated cell of every heap component has its old value
		if err := argc(0); err != nil {
			return Val{}, err
		}
		var parts []string
		frontier := fc.compAt(se.old, "alloc", "Int")
		for _, comp := range sortedKeys(se.st.heap) {
			if comp == "alloc" {
				continue
			}
			srt := se.st.sorts[comp]
			nowT := se.st.heap[comp]
			oldT := fc.compAt(se.old, comp, srt)
			if nowT == oldT {
				continue
			}
			if strings.HasPrefix(srt, "(Array Int ") {
				parts = append(parts, frameFormula(fc.vc, oldT, nowT, frontier, modTarget{comp: comp}))
			} else {
				parts = append(parts, mkEq(nowT, oldT))
			}
		}
		return Val{T: mkAnd(parts...), S: SBool, Typ: tBool}, nil
	case "cause":
		p, err := se.expr(x.Args[0])
		if err != nil {
			return Val{}, err
		}
		fc.vc.declareFun("cause", []string{"Int"}, "Int")
		return Val{T: "(cause " + p.T + ")", S: SInt, Typ: p.Typ}, nil
	case "held":
		p, err := se.expr(x.Args[0])
		if err != nil {
			return Val{}, err
		}
		if p.S == SInt {
			return Val{T: mkNot(mkEq(p.T, "0")), S: SBool, Typ: tBool}, nil
		}
		dt := string(p.S)
		return Val{T: mkNot(mkEq("("+dt+".held "+p.T+")", "0")), S: SBool, Typ: tBool}, nil
	case "sent", "closed", "chancap", "recvd":
		p, err := se.expr(x.Args[0])
		if err != nil {
			return Val{}, err
		}
		fc.chanFact(p, se.qvars)
		var t string
		switch name {
		case "sent":
			t = sel(fc.compAt(se.st, "CN.sent", arraySort("Int")), p.T)
		case "recvd":
			t = sel(fc.compAt(se.st, "CN.recvd", arraySort("Int")), p.T)
		case "chancap":
			t = sel(fc.compAt(se.st, "CN.cap", arraySort("Int")), p.T)
		default:
			t = sel(fc.compAt(se.st, "CN.closed", arraySort("Bool")), p.T)
			se.notePattern(t)
			return Val{T: t, S: SBool, Typ: tBool}, nil
		}
		se.notePattern(t) // a quantifier over channels is instantiated where the counter of a channel is mentioned
		return Val{T: t, S: SInt, Typ: tInt}, nil
	case "failed":
		p, err := se.expr(x.Args[0])
		if err != nil {
			return Val{}, err
		}
		return Val{T: mkEq(sel(fc.compAt(se.st, ghFailed, arraySort("Int")), p.T), "1"), S: SBool, Typ: tBool}, nil
	case "consumed", "count", "teesrc", "teedst":
		p, err := se.expr(x.Args[0])
		if err != nil {
			return Val{}, err
		}
		comp := map[string]string{"consumed": ghConsumed, "count": ghCount, "teesrc": ghTeeSrc, "teedst": ghTeeDst}[name]
		return Val{T: sel(fc.compAt(se.st, comp, arraySort("Int")), p.T), S: SInt, Typ: tInt}, nil
	case "isflag":
		// isflag(v): the atomic.Value holds a bool (so Load().(bool) cannot panic)
		v, err := se.expr(x.Args[0])
		if err != nil {
			return Val{}, err
		}
		fc.vc.declareFun("typeOf", []string{"Int"}, "Int")
		val := "(" + string(v.S) + ".val " + v.T + ")"
		if v.S == SInt {
			val = sel(fc.compAt(se.st, "F.sync.atomic.Value.val", arraySort("Int")), v.T)
		}
		return Val{T: mkAnd(mkNot(mkEq(val, "0")), mkEq("(typeOf "+val+")", fc.typeID(types.Typ[types.Bool]))), S: SBool, Typ: tBool}, nil
	case "flag":
		// flag(v): the bool stored in an atomic.Value (struct value or pointer to it)
		v, err := se.expr(x.Args[0])
		if err != nil {
			return Val{}, err
		}
		fc.vc.declareFun("unwrap.bool", []string{"Int"}, "Bool")
		if v.S == SInt {
			c := fc.compAt(se.st, "F.sync.atomic.Value.val", arraySort("Int"))
			return Val{T: "(unwrap.bool " + sel(c, v.T) + ")", S: SBool, Typ: tBool}, nil
		}
		return Val{T: "(unwrap.bool (" + string(v.S) + ".val " + v.T + "))", S: SBool, Typ: tBool}, nil
	case "since":
		// since(t): what time.Since(t) returns in this call (uninterpreted function of the stamp)
		v, err := se.expr(x.Args[0])
		if err != nil {
			return Val{}, err
		}
		t := fc.timeSince(v)
		se.notePattern(t)
		return Val{T: t, S: SInt, Typ: tInt}, nil
	case "aload":
		// aload(v, T): the value of type T stored in an atomic.Value (what v.Load().(T) yields)
		v, err := se.expr(x.Args[0])
		if err != nil {
			return Val{}, err
		}
		pkg := fc.prog.pkgByPath(se.pkgPath)
		t, err := resolveType(pkg, x.Args[1])
		if err != nil {
			return Val{}, err
		}
		uf := "unwrap." + typeKey(t)
		fc.vc.declareFun(uf, []string{"Int"}, fc.sortStr(t))
		val := "(" + string(v.S) + ".val " + v.T + ")"
		if v.S == SInt {
			val = sel(fc.compAt(se.st, "F.sync.atomic.Value.val", arraySort("Int")), v.T)
		}
		return Val{T: "(" + uf + " " + val + ")", S: fc.vc.sortOf(t), Typ: t}, nil
	case "ghostv":
		// ghostv("name", ref): a named ghost counter/cell per object
		bl, ok := x.Args[0].(*ast.BasicLit)
		if !ok || len(x.Args) != 2 {
			return Val{}, fmt.Errorf("ghostv(\"name\", ref)")
		}
		r, err := se.expr(x.Args[1])
		if err != nil {
			return Val{}, err
		}
		c := fc.compAt(se.st, "GH."+strings.Trim(bl.Value, "\""), arraySort("Int"))
		return Val{T: sel(c, r.T), S: SInt, Typ: tInt}, nil
	case "closureIs":
		// closureIs(v, F): v is the method value / closure of function F
		if err := argc(2); err != nil {
			return Val{}, err
		}
		v, err := se.expr(x.Args[0])
		if err != nil {
			return Val{}, err
		}
		name := exprString(x.Args[1])
		fn, err := fc.prog.resolveFuncName(se.pkgPath, name+"$bound")
		if err != nil {
			fn, err = fc.prog.resolveFuncName(se.pkgPath, name)
			if err != nil {
				return Val{}, err
			}
		}
		fv, _ := fc.val(fn)
		fc.vc.declareFun("closureFn", []string{"Int"}, "Int")
		return Val{T: mkAnd(mkNot(mkEq(v.T, "0")), mkEq("(closureFn "+v.T+")", fv.T)), S: SBool, Typ: tBool}, nil
	case "lastrecv":
		// lastrecv(c): the last value received from channel c by this function (volatile across calls and loops)
		if err := argc(1); err != nil {
			return Val{}, err
		}
		c, err := se.expr(x.Args[0])
		if err != nil {
			return Val{}, err
		}
		ct, ok := c.Typ.Underlying().(*types.Chan)
		if !ok {
			return Val{}, fmt.Errorf("lastrecv needs a channel")
		}
		return Val{T: sel(fc.compAt(se.st, ghLastRecv, arraySort("Int")), c.T), S: SInt, Typ: ct.Elem()}, nil
	case "chanlog":
		if err := argc(2); err != nil {
			return Val{}, err
		}
		p, err := se.expr(x.Args[0])
		if err != nil {
			return Val{}, err
		}
		i, err := se.expr(x.Args[1])
		if err != nil {
			return Val{}, err
		}
		ct, ok := p.Typ.Underlying().(*types.Chan)
		if !ok {
			return Val{}, fmt.Errorf("chanlog needs a channel")
		}
		c := fc.compAt(se.st, "CL."+typeKey(ct.Elem()), arraySort(arraySort(fc.sortStr(ct.Elem()))))
		t := sel(sel(c, p.T), i.T)
		se.notePattern(t)
		return Val{T: t, S: fc.vc.sortOf(ct.Elem()), Typ: ct.Elem()}, nil
	case "forall", "exists":
		return se.quantRange(name, x)
	case "forallv", "existsv":
		return se.quantSort(name, x)
	case "int", "int64", "int32", "uint32", "uint64", "uint8", "uint":
		v, err := se.expr(x.Args[0])
		if err != nil {
			return Val{}, err
		}
		v.Typ = types.Universe.Lookup(name).Type()
		return v, nil
	case "wrap32":
		v, err := se.expr(x.Args[0])
		if err != nil {
			return Val{}, err
		}
		return Val{T: "(mod " + v.T + " 4294967296)", S: SInt, Typ: types.Typ[types.Uint32]}, nil
	case "wrap64":
		v, err := se.expr(x.Args[0])
		if err != nil {
			return Val{}, err
		}
		return Val{T: "(mod " + v.T + " 18446744073709551616)", S: SInt, Typ: types.Typ[types.Uint64]}, nil
	case "wrapi32":
		v, err := se.expr(x.Args[0])
		if err != nil {
			return Val{}, err
		}
		return Val{T: wrapInt(types.Typ[types.Int32], v.T), S: SInt, Typ: types.Typ[types.Int32]}, nil
	case "typeis":
		if err := argc(2); err != nil {
			return Val{}, err
		}
		v, err := se.expr(x.Args[0])
		if err != nil {
			return Val{}, err
		}
		pkg := fc.prog.pkgByPath(se.pkgPath)
		t, err := resolveType(pkg, x.Args[1])
		if err != nil {
			return Val{}, err
		}
		fc.vc.declareFun("typeOf", []string{"Int"}, "Int")
		return Val{T: mkEq("(typeOf "+v.T+")", fc.typeID(t)), S: SBool, Typ: tBool}, nil
	}
	// user-defined pure / uninterpreted function
	pf := fc.prog.Cons.Pure[se.pkgPath+"::"+name]
	if pf == nil {
		for k, cand := range fc.prog.Cons.Pure {
			if strings.HasSuffix(k, "::"+name) {
				pf = cand
			}
		}
	}
	if pf == nil {
		return Val{}, fmt.Errorf("unknown spec function %s", name)
	}
	if err := argc(len(pf.Params)); err != nil {
		return Val{}, err
	}
	var args []Val
	for i, a := range x.Args {
		v, err := se.expr(a)
		if err != nil {
			return Val{}, err
		}
		// nil literal adopts the parameter type
		if v.Typ == untypedNil {
			v.Typ = pf.Params[i].Type
			if fc.vc.sortOf(v.Typ) == SSlice {
				v.T = mkSlice("0", "0", "0", "0")
				v.S = SSlice
			}
		}
		args = append(args, v)
	}
	if pf.Body == nil && pf.Heap {
		return se.heapFunc(pf, args)
	}
	if pf.Body == nil {
		fn := "uf." + smtIdent(pf.Name)
		var sorts, ts []string
		for i, p := range pf.Params {
			sorts = append(sorts, fc.sortStr(p.Type))
			ts = append(ts, args[i].T)
		}
		fc.vc.declareFun(fn, sorts, fc.sortStr(pf.Ret))
		term := "(" + fn + " " + strings.Join(ts, " ") + ")"
		if len(ts) == 0 {
			term = fn
		}
		se.notePattern(term)
		return Val{T: term, S: fc.vc.sortOf(pf.Ret), Typ: pf.Ret}, nil
	}
	if pf.Heap {
		return se.heapFunc(pf, args)
	}
	if se.depth > 12 {
		return Val{}, fmt.Errorf("pure function expansion too deep at %s (recursive?)", name)
	}
	s := se.sub()
	s.depth = se.depth + 1
	s.pkgPath = pf.PkgPath
	// parameters shadow everything: a pure function sees only its parameters (plus bound variables via terms)
	s.vars = map[string]Val{}
	// large argument terms that the body mentions more than once are bound with an SMT let instead of being
	// copied (the difficulty-adjustment specification otherwise expands to megabytes)
	var lets []string
	for i, p := range pf.Params {
		a := args[i]
		a.Typ = p.Type
		if !noAbbrev && len(a.T) > 1500 && !strings.HasPrefix(a.T, "(mk-slice") && a.Tup == nil && a.Loc == nil && !strings.HasPrefix(a.T, "(mk.") && countIdent(pf.Body, p.Name) >= 2 {
			fc.vc.nfresh++
			n := fmt.Sprintf("l!%s!%d", smtIdent(p.Name), fc.vc.nfresh)
			if fc.vc.abbr == nil {
				fc.vc.abbr = map[string]string{}
			}
			fc.vc.abbr[n] = a.T
			lets = append(lets, "("+n+" "+a.T+")")
			a.T = n
		}
		s.vars[p.Name] = a
	}
	if len(lets) > 0 {
		fc.vc.abbrActive++
	}
	r, err := s.expr(pf.Body)
	if len(lets) > 0 {
		fc.vc.abbrActive--
	}
	if err != nil {
		return Val{}, fmt.Errorf("in %s: %v", name, err)
	}
	if len(lets) > 0 {
		if r.Tup != nil || r.Loc != nil {
			r.T = fc.vc.expandAbbr(r.T)
			for i := range r.Tup {
				r.Tup[i].T = fc.vc.expandAbbr(r.Tup[i].T)
			}
		} else if abbrRe.MatchString(r.T) {
			r.T = "(let (" + strings.Join(lets, " ") + ") " + r.T + ")"
		}
	}
	if r.Typ == untypedNil || r.S == fc.vc.sortOf(pf.Ret) {
		r.Typ = pf.Ret
	}
	return r, nil
}

// quantRange: forall(i, lo, hi, body) over integers lo <= i < hi. When the body indexes a slice with exactly i,
// the bound variable ranges over absolute region indices so that triggers contain no arithmetic.
func (se *SpecEnv) quantRange(kind string, x *ast.CallExpr) (Val, error) {
	fc := se.fc
	if len(x.Args) != 4 {
		return Val{}, fmt.Errorf("%s(i, lo, hi, body) expects 4 arguments", kind)
	}
	id, ok := x.Args[0].(*ast.Ident)
	if !ok {
		return Val{}, fmt.Errorf("%s: first argument must be an identifier", kind)
	}
	lo, err := se.expr(x.Args[1])
	if err != nil {
		return Val{}, err
	}
	hi, err := se.expr(x.Args[2])
	if err != nil {
		return Val{}, err
	}
	fc.vc.nfresh++
	m := se.qname(id.Name, x)
	// find a slice indexed by exactly i
	off := "0"
	var found ast.Expr
	ast.Inspect(x.Args[3], func(n ast.Node) bool {
		if found != nil {
			return false
		}
		if ie, ok := n.(*ast.IndexExpr); ok {
			if ii, ok := ie.Index.(*ast.Ident); ok && ii.Name == id.Name {
				uses := false
				ast.Inspect(ie.X, func(k ast.Node) bool {
					if kid, ok := k.(*ast.Ident); ok && kid.Name == id.Name {
						uses = true
					}
					return true
				})
				if !uses {
					found = ie.X
				}
			}
		}
		return true
	})
	if found != nil {
		if bv, err := se.expr(found); err == nil && bv.S == SSlice {
			off = proj("s-off", bv.T)
		}
	}
	s := se.sub()
	var pats []string
	s.pats = &pats
	s.qvars = append(append([]string{}, se.qvars...), m)
	s.vars[id.Name] = Val{T: mkSub(m, off), S: SInt, Typ: tInt}
	s.bound[id.Name] = s.vars[id.Name]
	body, err := s.boolExpr(x.Args[3])
	if err != nil {
		return Val{}, err
	}
	rng := mkAnd("(<= "+mkAdd(off, lo.T)+" "+m+")", "(< "+m+" "+mkAdd(off, hi.T)+")")
	return Val{T: mkQuant(kind, m, "Int", rng, body, pats), S: SBool, Typ: tBool}, nil
}

func mkQuant(kind, v, sort, rng, body string, pats []string) string {
	var inner string
	q := "forall"
	if kind == "forall" || kind == "forallv" {
		inner = mkImplies(rng, body)
	} else {
		q = "exists"
		inner = mkAnd(rng, body)
	}
	if inner == "true" || inner == "false" {
		return inner
	}
	var good []string
	for _, p := range pats {
		if patternOK(p, v) {
			good = append(good, p)
		}
	}
	if len(good) > 0 {
		ps := ""
		for _, p := range good {
			ps += " :pattern (" + p + ")"
		}
		inner = "(! " + inner + ps + " :qid qid." + smtIdent(v) + ")"
	}
	return "(" + q + " ((" + v + " " + sort + ")) " + inner + ")"
}

// patternOK: a usable trigger mentions the bound variable and contains no arithmetic on it.
func patternOK(p, v string) bool {
	if !containsToken(p, v) {
		return false
	}
	for _, op := range []string{"(+ ", "(- ", "(* ", "(div ", "(mod ", "(ite ", "(<= ", "(< ", "(= ", "(and ", "(or ", "(not "} {
		if strings.Contains(p, op) {
			return false
		}
	}
	return true
}

// quantSort: forallv(x, T, body) quantifies over all values of the sort of Go type T.
func (se *SpecEnv) quantSort(kind string, x *ast.CallExpr) (Val, error) {
	fc := se.fc
	if len(x.Args) != 3 {
		return Val{}, fmt.Errorf("%s(x, T, body) expects 3 arguments", kind)
	}
	id, ok := x.Args[0].(*ast.Ident)
	if !ok {
		return Val{}, fmt.Errorf("%s: first argument must be an identifier", kind)
	}
	pkg := fc.prog.pkgByPath(se.pkgPath)
	t, err := resolveType(pkg, x.Args[1])
	if err != nil {
		return Val{}, err
	}
	fc.vc.nfresh++
	m := se.qname(id.Name, x)
	s := se.sub()
	var pats []string
	s.pats = &pats
	s.qvars = append(append([]string{}, se.qvars...), m)
	s.vars[id.Name] = Val{T: m, S: fc.vc.sortOf(t), Typ: t}
	s.bound[id.Name] = s.vars[id.Name]
	body, err := s.boolExpr(x.Args[2])
	if err != nil {
		return Val{}, err
	}
	rng := "true"
	switch ut := t.Underlying().(type) {
	case *types.Chan:
		// a channel variable ranges over channel objects of its element type only
		fc.vc.declareFun("typeOf", []string{"Int"}, "Int")
		tid := fc.typeID(types.NewChan(types.SendRecv, ut.Elem()))
		// (non-nil: reference 0 is outside every frame, and nothing is ever sent on a nil channel)
		rng = "(and (< 0 " + m + ") (= (typeOf " + m + ") " + tid + "))"
	case *types.Pointer, *types.Map:
		rng = "(<= 0 " + m + ")"
	case *types.Basic:
		if b := t.Underlying().(*types.Basic); b.Kind() != types.Int && b.Kind() != types.Int64 {
			rng = intRange(t, m) // int / int64 are mathematical integers in specifications
		}
	}
	k := "forall"
	if kind == "existsv" {
		k = "exists"
	}
	return Val{T: mkQuant(k, m, fc.sortStr(t), rng, body, pats), S: SBool, Typ: tBool}, nil
}

// heapFunc: application of a heap-dependent recursive spec function. The SMT symbol takes the current versions of
// the components listed in `reads` as extra arguments; closed applications are unfolded once (the definitional
// equation is emitted as a background fact), which is exactly what a modular proof with the recursive call's
// contract as induction hypothesis needs.
func (se *SpecEnv) heapFunc(pf *PureFunc, args []Val) (Val, error) {
	fc := se.fc
	pkg := fc.prog.pkgByPath(pf.PkgPath)
	var compTerms, compSorts []string
	readComps := map[string]bool{"alloc": true}
	for _, r := range pf.Reads {
		switch x := r.(type) {
		case *ast.SelectorExpr:
			t, err := resolveType(pkg, x.X)
			if err != nil {
				return Val{}, err
			}
			found := false
			for _, f := range fc.vc.fieldsOf(t) {
				if f.name == x.Sel.Name {
					srt := arraySort(string(f.sort))
					compTerms = append(compTerms, fc.compAt(se.st, fieldComp(t, f.name), srt))
					compSorts = append(compSorts, srt)
					readComps[fieldComp(t, f.name)] = true
					found = true
				}
			}
			if !found {
				return Val{}, fmt.Errorf("reads: no field %s", exprString(r))
			}
		case *ast.CallExpr:
			id, _ := x.Fun.(*ast.Ident)
			if id == nil || len(x.Args) != 1 {
				return Val{}, fmt.Errorf("unsupported reads item %s", exprString(r))
			}
			t, err := resolveType(pkg, x.Args[0])
			if err != nil {
				return Val{}, err
			}
			switch id.Name {
			case "elems":
				srt := arraySort(arraySort(fc.sortStr(t)))
				compTerms = append(compTerms, fc.compAt(se.st, elemComp(t), srt))
				compSorts = append(compSorts, srt)
				readComps[elemComp(t)] = true
			case "maps":
				mt, ok := t.Underlying().(*types.Map)
				if !ok {
					return Val{}, fmt.Errorf("maps needs a map type")
				}
				ks, vs := fc.mapSorts(mt)
				mh, mv, _ := mapComps(t)
				readComps[mh], readComps[mv] = true, true
				compTerms = append(compTerms, fc.compAt(se.st, mh, arraySort("(Array "+ks+" Bool)")), fc.compAt(se.st, mv, arraySort("(Array "+ks+" "+vs+")")))
				compSorts = append(compSorts, arraySort("(Array "+ks+" Bool)"), arraySort("(Array "+ks+" "+vs+")"))
			default:
				return Val{}, fmt.Errorf("unsupported reads item %s", exprString(r))
			}
		case *ast.Ident:
			if x.Name != "bigv" {
				return Val{}, fmt.Errorf("unsupported reads item %s", exprString(r))
			}
			compTerms = append(compTerms, fc.compAt(se.st, bigComp, arraySort("Int")))
			compSorts = append(compSorts, arraySort("Int"))
			readComps[bigComp] = true
		default:
			return Val{}, fmt.Errorf("unsupported reads item %s", exprString(r))
		}
	}
	fn := "hf." + smtIdent(pf.Name)
	sorts := append([]string{"Int"}, compSorts...)
	var argSorts []string
	for _, p := range pf.Params {
		argSorts = append(argSorts, fc.sortStr(p.Type))
	}
	sorts = append(sorts, argSorts...)
	fc.vc.declareFun(fn, sorts, fc.sortStr(pf.Ret))
	fuel := maxFuel
	if se.fuelSet {
		fuel = se.fuel
	}
	app := func(fuel int, as []string) string {
		return "(" + fn + " " + fmt.Sprintf("%d", fuel) + " " + strings.Join(append(append([]string{}, compTerms...), as...), " ") + ")"
	}
	var ts []string
	for i := range pf.Params {
		ts = append(ts, args[i].T)
	}
	term := app(fuel, ts)
	se.notePattern(term)
	res := Val{T: term, S: fc.vc.sortOf(pf.Ret), Typ: pf.Ret}
	// definitional axioms for this heap tuple, once: fuel-bounded unfolding (Dafny style) so that E-matching
	// cannot loop along the parent chain
	key := fn + "|" + strings.Join(compTerms, "|")
	if pf.Body == nil || (pf.Opaque && !fc.topCon().Reveal[pf.Name]) {
		// the definition stays hidden here: the symbol is an uninterpreted function of the components it reads
		// (the reads clause is checked for completeness where the function is revealed)
		return res, nil
	}
	if !fc.vc.unfolded[key] {
		fc.vc.unfolded[key] = true
		for level := maxFuel; level >= 1; level-- {
			fc.vc.nfresh++
			var qs, decl []string
			s := se.sub()
			s.fuel, s.fuelSet = level-1, true
			s.depth = se.depth + 1
			s.pkgPath = pf.PkgPath
			s.vars = map[string]Val{}
			s.pats = nil
			s.qvars = nil
			for i, p := range pf.Params {
				q := fmt.Sprintf("q!%s!%d", p.Name, fc.vc.nfresh)
				qs = append(qs, q)
				decl = append(decl, "("+q+" "+argSorts[i]+")")
				s.vars[p.Name] = Val{T: q, S: fc.vc.sortOf(p.Type), Typ: p.Type}
			}
			saveTrace := fc.vc.compTrace
			fc.vc.compTrace = map[string]bool{}
			body, err := s.expr(pf.Body)
			trace := fc.vc.compTrace
			fc.vc.compTrace = saveTrace
			if err != nil {
				return Val{}, fmt.Errorf("in %s: %v", pf.Name, err)
			}
			for c := range trace {
				if saveTrace != nil {
					saveTrace[c] = true
				}
				if readComps[c] {
					continue
				}
				// touched while building a struct value; only an occurrence in the resulting term is a read
				srt, ok := se.st.sorts[c]
				if !ok {
					srt = fc.cur.sorts[c]
				}
				ct := fc.compAt(se.st, c, srt)
				if containsToken(fc.vc.expandAbbr(body.T), ct) {
					return Val{}, fmt.Errorf("hfunc %s reads heap component %s which its reads clause does not list", pf.Name, c)
				}
			}
			bt := body.T
			if body.Typ == untypedNil && res.S == SSlice {
				bt = mkSlice("0", "0", "0", "0")
			}
			lhs := app(level, qs)
			fc.vc.assertGlobal("(forall (" + strings.Join(decl, " ") + ") (! (and (= " + lhs + " " + bt + ") (= " + lhs + " " + app(level-1, qs) + ")) :pattern (" + lhs + ") :qid def." + smtIdent(pf.Name) + "))")
			// typing: for arguments allocated in this state the result (read from the heap) is well typed here
			frontier := fc.compAt(se.st, "alloc", "Int")
			allBase := true
			for _, ct := range compTerms {
				if !strings.HasSuffix(ct, "@0") {
					allBase = false
				}
			}
			if allBase {
				// every component read is still the entry version: results are entry-state values
				frontier = baseName("alloc", 0)
				fc.vc.declare(frontier, "Int")
			}
			var guards []string
			for i, p := range pf.Params {
				switch p.Type.Underlying().(type) {
				case *types.Pointer, *types.Map, *types.Chan:
					// both bounds: a function that returns one of its arguments must not be forced into
					// [0, frontier] for arguments outside it (that made the axioms contradictory)
					guards = append(guards, "(<= 0 "+qs[i]+")", "(<= "+qs[i]+" "+frontier+")")
				}
			}
			wt := fc.wellTyped(lhs, pf.Ret, frontier, 1)
			if wt != "true" {
				fc.vc.assertGlobal("(forall (" + strings.Join(decl, " ") + ") (! " + mkImplies(mkAnd(guards...), wt) + " :pattern (" + lhs + ")))")
				if level == 1 {
					l0 := app(0, qs)
					fc.vc.assertGlobal("(forall (" + strings.Join(decl, " ") + ") (! " + mkImplies(mkAnd(guards...), fc.wellTyped(l0, pf.Ret, frontier, 1)) + " :pattern (" + l0 + ")))")
				}
			}
		}
	}
	return res, nil
}

const maxFuel = 2

func (fc *FnCtx) hash32Type() types.Type {
	if sp := fc.prog.SSAPkgs["github.com/tokenized/pkg/bitcoin"]; sp != nil {
		if o := sp.Pkg.Scope().Lookup("Hash32"); o != nil {
			return o.Type()
		}
	}
	return tInt
}

// noAbbrev switches the let-binding of large specification-function arguments off (debugging aid).
var noAbbrev = os.Getenv("GOVC_NOABBREV") != ""

func countIdent(e ast.Expr, name string) int {
	n := 0
	ast.Inspect(e, func(k ast.Node) bool {
		if id, ok := k.(*ast.Ident); ok && id.Name == name {
			n++
		}
		return true
	})
	return n
}

// qname names a quantified variable after the source text of its quantifier and the nesting depth, so that two
// translations of the same specification text (a lemma and the postcondition it discharges, an invariant assumed and
// re-proved) give syntactically identical quantifiers: the solvers compare bound names, and identical formulas then
// cancel propositionally instead of by instantiation.
func (se *SpecEnv) qname(id string, x ast.Expr) string {
	if os.Getenv("GOVC_UNIQQ") != "" {
		se.fc.vc.nfresh++
		return fmt.Sprintf("q!%s!%d", id, se.fc.vc.nfresh)
	}
	h := sha256.Sum256([]byte(exprString(x)))
	return fmt.Sprintf("q!%s!%s_%d", id, hex.EncodeToString(h[:4]), len(se.qvars))
}
