package main

import (
	"fmt"
	"go/constant"
	"go/token"
	"go/types"
	"sort"
	"strings"

	"golang.org/x/tools/go/ssa"
)

// Static obligations: whole-package frame conditions that are decided by scanning the SSA of every function of
// the package (no solver): which functions write a protected field, which store `true` into a flag, and which
// functions are (transitively) reachable from a set of entry points.
//
//   //@ static writers Type.field : f1, f2, ...             [tags]
//   //@ static stores-true Type.field : f1, ...             [tags]
//   //@ static monotone-flag Type.field : allowed1, ...      [tags]   (plain bool field only ever set to true)
//   //@ static callfree e1, e2 : forbidden1, forbidden2 through g1, g2   [tags]

type StaticCheck struct {
	Kind    string
	Subject []string // Type.field list or entry functions
	Allowed []string // allowed functions / forbidden callees
	Gates   []string
	Tags    []string
	PkgPath string
	Pos     string
	Src     string
}

func parseStatic(pkgPath, rest, pos string) (*StaticCheck, error) {
	sc := &StaticCheck{PkgPath: pkgPath, Pos: pos, Src: rest}
	if i := strings.LastIndex(rest, "["); i >= 0 && strings.HasSuffix(strings.TrimSpace(rest), "]") {
		for _, t := range strings.Split(strings.Trim(strings.TrimSpace(rest[i:]), "[]"), ",") {
			sc.Tags = append(sc.Tags, strings.TrimSpace(t))
		}
		rest = strings.TrimSpace(rest[:i])
	}
	f := strings.Fields(rest)
	if len(f) == 0 {
		return nil, fmt.Errorf("empty static clause")
	}
	sc.Kind = f[0]
	body := strings.TrimSpace(rest[len(f[0]):])
	parts := strings.SplitN(body, " : ", 2)
	if len(parts) != 2 {
		return nil, fmt.Errorf("static clause needs ' : '")
	}
	split := func(s string) []string {
		var out []string
		for _, x := range strings.Split(s, ",") {
			if x = strings.TrimSpace(x); x != "" {
				out = append(out, x)
			}
		}
		return out
	}
	sc.Subject = split(parts[0])
	rhs := parts[1]
	if i := strings.Index(rhs, " through "); i >= 0 {
		sc.Gates = split(rhs[i+9:])
		rhs = rhs[:i]
	}
	sc.Allowed = split(rhs)
	return sc, nil
}

func fnShort(fn *ssa.Function) string {
	s := fn.String()
	if i := strings.LastIndex(s, "/"); i >= 0 {
		// keep receiver parens: "(*github.com/x/y.T).M" -> "(*y.T).M"
		pre := ""
		j := strings.LastIndexAny(s[:i], "(*")
		if j >= 0 {
			pre = s[:j+1]
		}
		s = pre + s[i+1:]
	}
	// drop the package name qualifier
	if k := strings.Index(s, "."); k >= 0 {
		head := s[:k]
		if strings.HasPrefix(head, "(*") {
			s = "(*" + s[k+1:]
		} else if strings.HasPrefix(head, "(") {
			s = "(" + s[k+1:]
		} else {
			s = s[k+1:]
		}
	}
	return s
}

// topFunction maps closures to the function they are declared in.
// onlyCalledFrom: fn is an unexported helper of the package whose every static caller is an allowed writer (or again
// such a helper): a write extracted into a helper is still a write of the allowed functions. A function whose
// address is taken (used as a value) or that is exported may be called from anywhere and is not accepted.
func (p *Program) onlyCalledFrom(fn *ssa.Function, sc *StaticCheck, seen map[*ssa.Function]bool) bool {
	if seen[fn] {
		return true
	}
	seen[fn] = true
	if fn.Object() == nil || fn.Object().Exported() {
		return false
	}
	callers := 0
	for _, g := range p.pkgFunctions(sc.PkgPath) {
		for _, b := range g.Blocks {
			for _, ins := range b.Instrs {
				if ci, ok := ins.(ssa.CallInstruction); ok && ci.Common().StaticCallee() == fn {
					callers++
					top := topFunction(g)
					if !contains(sc.Allowed, fnShort(top)) && !p.onlyCalledFrom(top, sc, seen) {
						return false
					}
					continue
				}
				// any other use of the function value (closure, method value, interface conversion)
				var ops []*ssa.Value
				for _, op := range ins.Operands(ops) {
					if op != nil && *op == ssa.Value(fn) {
						if _, isCall := ins.(ssa.CallInstruction); !isCall {
							return false
						}
					}
				}
			}
		}
	}
	return callers > 0
}

func topFunction(fn *ssa.Function) *ssa.Function {
	for fn.Parent() != nil {
		fn = fn.Parent()
	}
	return fn
}

func (p *Program) pkgFunctions(pkgPath string) []*ssa.Function {
	var out []*ssa.Function
	for _, fn := range p.Funcs {
		t := topFunction(fn)
		if t.Pkg != nil && t.Pkg.Pkg.Path() == pkgPath && len(fn.Blocks) > 0 {
			out = append(out, fn)
		}
	}
	sort.Slice(out, func(i, j int) bool { return out[i].String() < out[j].String() })
	return out
}

// fieldOfAddr: if v is (a load of) the address of field Type.f, returns "Type.f".
func fieldName(v ssa.Value) string {
	for {
		switch x := v.(type) {
		case *ssa.UnOp:
			if x.Op == token.MUL {
				v = x.X
				continue
			}
		case *ssa.FieldAddr:
			pt, ok := x.X.Type().Underlying().(*types.Pointer)
			if !ok {
				return ""
			}
			n, ok := pt.Elem().(*types.Named)
			if !ok {
				return ""
			}
			return n.Obj().Name() + "." + pt.Elem().Underlying().(*types.Struct).Field(x.Field).Name()
		}
		return ""
	}
}

func contains(xs []string, s string) bool {
	for _, x := range xs {
		if x == s {
			return true
		}
	}
	return false
}

func (p *Program) runStatic(sc *StaticCheck) *Obligation {
	o := &Obligation{Name: fmt.Sprintf("static/%s %s", sc.Kind, strings.Join(sc.Subject, ",")), Kind: "static", Props: sc.Tags, Func: "package " + sc.PkgPath,
		Desc: sc.Src, Status: "unsat", Solver: "ssa-scan", Goal: "true", Guard: "true"}
	var offenders []string
	note := func(fn *ssa.Function, what string) {
		offenders = append(offenders, fnShort(topFunction(fn))+": "+what)
	}
	switch sc.Kind {
	case "writers":
		for _, fn := range p.pkgFunctions(sc.PkgPath) {
			top := fnShort(topFunction(fn))
			for _, b := range fn.Blocks {
				for _, ins := range b.Instrs {
					var f string
					switch x := ins.(type) {
					case *ssa.MapUpdate:
						f = fieldName(x.Map)
					case *ssa.Store:
						f = fieldName(x.Addr)
					case ssa.CallInstruction:
						c := x.Common()
						if bi, ok := c.Value.(*ssa.Builtin); ok && bi.Name() == "delete" {
							f = fieldName(c.Args[0])
						}
					}
					if f != "" && contains(sc.Subject, f) && !contains(sc.Allowed, top) && !p.onlyCalledFrom(topFunction(fn), sc, map[*ssa.Function]bool{}) {
						note(fn, "writes "+f)
					}
				}
			}
		}
	case "stores-true":
		for _, fn := range p.pkgFunctions(sc.PkgPath) {
			top := fnShort(topFunction(fn))
			for _, b := range fn.Blocks {
				for _, ins := range b.Instrs {
					ci, ok := ins.(ssa.CallInstruction)
					if !ok {
						continue
					}
					c := ci.Common()
					callee, ok := c.Value.(*ssa.Function)
					if !ok || callee.String() != "(*sync/atomic.Value).Store" {
						continue
					}
					f := fieldName(c.Args[0])
					if f == "" || !contains(sc.Subject, f) {
						continue
					}
					isFalse := false
					if mi, ok := c.Args[1].(*ssa.MakeInterface); ok {
						if k, ok := mi.X.(*ssa.Const); ok && k.Value != nil && k.Value.Kind() == constant.Bool && !constant.BoolVal(k.Value) {
							isFalse = true
						}
					}
					if !isFalse && !contains(sc.Allowed, top) {
						note(fn, "may store true into "+f)
					}
				}
			}
		}
	case "monotone-flag":
		// every plain store into the boolean field, in any function of the package outside the allowed list,
		// stores the constant true: once set the flag stays set
		for _, fn := range p.pkgFunctions(sc.PkgPath) {
			top := fnShort(topFunction(fn))
			for _, b := range fn.Blocks {
				for _, ins := range b.Instrs {
					st, ok := ins.(*ssa.Store)
					if !ok {
						continue
					}
					f := fieldName(st.Addr)
					if f == "" || !contains(sc.Subject, f) {
						continue
					}
					isTrue := false
					if k, ok := st.Val.(*ssa.Const); ok && k.Value != nil && k.Value.Kind() == constant.Bool && constant.BoolVal(k.Value) {
						isTrue = true
					}
					if !isTrue && !contains(sc.Allowed, top) {
						note(fn, "may store a value other than true into "+f)
					}
				}
			}
		}
	case "callfree":
		seen := map[*ssa.Function]bool{}
		var dyn []string
		var walk func(fn *ssa.Function, path string)
		walk = func(fn *ssa.Function, path string) {
			if seen[fn] || len(fn.Blocks) == 0 {
				return
			}
			seen[fn] = true
			for _, b := range fn.Blocks {
				for _, ins := range b.Instrs {
					if mc, ok := ins.(*ssa.MakeClosure); ok {
						walk(mc.Fn.(*ssa.Function), path+" -> "+fnShort(mc.Fn.(*ssa.Function)))
					}
					ci, ok := ins.(ssa.CallInstruction)
					if !ok {
						continue
					}
					c := ci.Common()
					if c.IsInvoke() {
						name := c.Method.Name()
						if n, ok := c.Value.Type().(*types.Named); ok {
							name = n.Obj().Name() + "." + name
						}
						if contains(sc.Allowed, name) {
							offenders = append(offenders, path+" -> "+name)
						}
						continue
					}
					switch callee := c.Value.(type) {
					case *ssa.Function:
						short := fnShort(callee)
						if contains(sc.Allowed, short) {
							offenders = append(offenders, path+" -> "+short)
							continue
						}
						if contains(sc.Gates, short) {
							continue
						}
						t := topFunction(callee)
						if t.Pkg != nil && p.RepoPkgs[t.Pkg.Pkg.Path()] {
							walk(callee, path+" -> "+short)
						}
					case *ssa.Builtin:
					default:
						dyn = append(dyn, path+" -> (dynamic call)")
					}
				}
			}
		}
		for _, e := range sc.Subject {
			fn, err := p.resolveFuncName(sc.PkgPath, e)
			if err != nil {
				o.Status, o.Model = "error", err.Error()
				return o
			}
			walk(fn, fnShort(fn))
		}
		if len(dyn) > 0 {
			o.Desc += " (dynamic calls not followed: " + strings.Join(dedupStrings(dyn), "; ") + ")"
		}
	default:
		o.Status, o.Model = "error", "unknown static check "+sc.Kind
		return o
	}
	if len(offenders) > 0 {
		o.Status = "sat"
		o.Model = "static scan found: " + strings.Join(dedupStrings(offenders), "; ")
	}
	return o
}

func dedupStrings(xs []string) []string {
	sort.Strings(xs)
	var out []string
	for i, x := range xs {
		if i == 0 || x != xs[i-1] {
			out = append(out, x)
		}
	}
	return out
}
