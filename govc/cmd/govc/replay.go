package main

// replayObligation tries to turn the solver's counterexample into a failing run of the real code.
// Families are added in replay_*.go; the default is "no concrete input found".
func replayObligation(p *Program, prop string, o *Obligation, replayPath string) bool {
	for _, f := range replayFamilies {
		if f.match(o) {
			if f.run(p, prop, o, replayPath) {
				return true
			}
		}
	}
	return false
}

type replayFamily struct {
	name  string
	match func(o *Obligation) bool
	run   func(p *Program, prop string, o *Obligation, replayPath string) bool
}

var replayFamilies []replayFamily
