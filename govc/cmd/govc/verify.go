package main

import (
	"fmt"
	"strings"
)

// FuncResult is the outcome of generating the VC of one function under contract.
type FuncResult struct {
	Con      *Contract
	VC       *VC
	Err      error // unsupported construct / contract error: the function is undecided, never "proved"
	Name     string
	Segments int
}

// verifyFunction generates all obligations of one function under contract.
func (p *Program) verifyFunction(con *Contract) *FuncResult {
	res := &FuncResult{Con: con, Name: shortName(con.Fn)}
	sorts := map[string]string{}
	// pass 1 discovers the heap components (and their sorts) the body touches, so that loop heads and
	// havocs of pass 2 cover components that are first accessed later.
	if _, err := p.genVC(con, sorts); err != nil {
		res.Err = err
		return res
	}
	vc, err := p.genVC(con, sorts)
	res.VC = vc
	res.Err = err
	return res
}

func (p *Program) genVC(con *Contract, sorts map[string]string) (vc *VC, err error) {
	defer func() {
		if r := recover(); r != nil {
			if u, ok := r.(*unsupported); ok {
				err = u
				return
			}
			panic(r)
		}
	}()
	vc = newVC(p)
	fn := con.Fn
	fc := &FnCtx{vc: vc, prog: p, fn: fn, con: con, oblCount: map[string]int{}, letVals: map[string]Val{}}
	fc.safety = con.SafetyOn
	for _, t := range con.Safety {
		if !strings.HasPrefix(t, "+") {
			fc.safetyTags = append(fc.safetyTags, t)
		}
	}
	entry := &State{heap: map[string]string{}, sorts: sorts, reach: "true"}
	fc.cur = entry
	fc.alloc()
	// make every known component exist at entry so that old() and frames refer to the same base constants
	for _, k := range sortedKeys(sorts) {
		fc.getComp(k, sorts[k])
	}
	var params []Val
	for _, prm := range fn.Params {
		s := vc.sortOf(prm.Type())
		n := "p." + smtIdent(prm.Name())
		vc.declare(n, string(s))
		vc.assert(fc.wellTyped(n, prm.Type(), fc.alloc(), 0))
		params = append(params, Val{T: n, S: s, Typ: prm.Type()})
	}
	se := fc.specEnv(con.PkgPath, entry, entry)
	fc.paramVars = map[string]Val{}
	for i, prm := range fn.Params {
		se.vars[prm.Name()] = params[i]
		fc.paramVars[prm.Name()] = params[i]
	}
	// package axioms
	for _, ax := range p.Cons.Axioms[con.PkgPath] {
		axe := fc.specEnv(con.PkgPath, entry, entry)
		t, err := axe.boolExpr(ax.Expr)
		if err != nil {
			return vc, fmt.Errorf("%s: axiom: %v", ax.Pos, err)
		}
		vc.assert(t)
		vc.trust("axiom: " + ax.Src)
	}
	for _, l := range con.Lets {
		v, err := se.expr(l.Expr)
		if err != nil {
			return vc, fmt.Errorf("%s: let %s: %v", con.Pos, l.Name, err)
		}
		se.vars[l.Name] = v
		fc.letVals[l.Name] = v
	}
	for _, r := range con.Requires {
		t, err := se.boolExpr(r.Expr)
		if err != nil {
			return vc, fmt.Errorf("%s: requires: %v", r.Pos, err)
		}
		vc.assert(t)
	}
	nPre := len(vc.asserts)
	vc.nPre = nPre
	if err := fc.execBody(entry, params); err != nil {
		return vc, err
	}
	vc.curTag = -1
	// vacuity: the precondition (with the typing facts) must be satisfiable
	vc.obls = append([]*Obligation{{Name: shortName(fn) + "/vacuity:requires", Kind: "vacuity", Func: shortName(fn), Guard: "true", Goal: "false", Tag: -1,
		NAsserts: nPre, vc: vc, Expect: "sat", Desc: "requires and typing facts are satisfiable", Props: con.props()}}, vc.obls...)
	// postconditions and frames at every return
	targets, err := fc.modTargets(con.Modifies, se)
	if err != nil {
		return vc, fmt.Errorf("%s: modifies: %v", con.Pos, err)
	}
	hasReads := len(fc.lastReads) > 0
	tmap := map[string]modTarget{}
	for _, t := range targets {
		tmap[t.comp] = t
	}
	alloc0 := baseName("alloc", 0)
	for ei, ex := range fc.exits {
		fc.cur = ex.state
		vc.curTag = ex.block.Index
		fc.lastCall = strings.TrimPrefix(ex.site, "after:")
		if ex.site == "entry" {
			fc.lastCall = ""
		}
		site := fmt.Sprintf("ret%d@%s", ei+1, ex.site)
		post := fc.specEnv(con.PkgPath, ex.state, fc.entry)
		for k, v := range se.vars {
			post.vars[k] = v
		}
		bindResults(post, ex.results)
		// vacuity: the facts that lead to this return must not be contradictory (a contradictory invariant or
		// specification-function axiom would discharge every obligation after it). A single unreachable return can be
		// legitimate (a guard the precondition excludes); all returns unreachable is reported.
		vc.obls = append(vc.obls, &Obligation{Name: fc.uniq(fmt.Sprintf("%s/vacuity:reach@%s", shortName(fn), site)), Kind: "vacuity", Func: shortName(fn),
			Guard: ex.state.reach, Goal: "false", Tag: vc.curTag, NAsserts: len(vc.asserts), vc: vc, Expect: "sat", Desc: "the path facts at this return are satisfiable", Props: con.props()})
		for i, e := range con.Ensures {
			if e.Assumed {
				continue
			}
			t, err := post.boolExpr(e.Expr)
			if err != nil {
				return vc, fmt.Errorf("%s: ensures: %v", e.Pos, err)
			}
			vc.oblige(&Obligation{Name: fc.uniq(fmt.Sprintf("%s/post[%s]@%s", shortName(fn), clauseLabel(e, i), site)), Kind: "post", Props: e.Tags, Func: shortName(fn),
				Guard: ex.state.reach, Goal: t, Desc: e.Src})
		}
		if !con.ModAll && !con.ModHeap {
			for _, comp := range sortedKeys(ex.state.heap) {
				if comp == "alloc" {
					continue
				}
				if comp == ghLastRecv {
					continue // volatile, outside every frame
				}
				if hasReads && strings.HasPrefix(comp, "GH.") {
					continue // byte counters of the readers named by reads(...) and of their tee chains
				}
				srt := ex.state.sorts[comp]
				entryT := baseName(comp, 0)
				finalT := ex.state.heap[comp]
				if finalT == entryT {
					continue
				}
				var goal string
				if strings.HasPrefix(srt, "(Array Int ") {
					mt, ok := tmap[comp]
					if !ok {
						mt = modTarget{comp: comp}
					}
					goal = frameFormula(vc, entryT, finalT, alloc0, mt)
				} else {
					goal = mkEq(finalT, entryT)
				}
				if goal == "true" {
					continue
				}
				vc.oblige(&Obligation{Name: fmt.Sprintf("%s/frame[%s]@%s", shortName(fn), comp, site), Kind: "frame", Func: shortName(fn),
					Guard: ex.state.reach, Goal: goal, Desc: "only locations listed in modifies (or fresh ones) are written: " + comp})
			}
		}
		// canary: the return must be reachable under the contract (otherwise every post is vacuous)
	}
	if len(fc.exits) == 0 {
		vc.warn("%s: no return is reachable", fn.Name())
	}
	return vc, nil
}
