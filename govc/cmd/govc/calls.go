package main

import (
	"fmt"
	"go/ast"
	"go/types"
	"os"
	"sort"
	"strings"
	"sync"

	"golang.org/x/tools/go/ssa"
)

const maxInlineDepth = 5
const maxInlineInstrs = 300

func (fc *FnCtx) args(c *ssa.CallCommon) ([]Val, error) {
	var out []Val
	if c.IsInvoke() {
		v, err := fc.val(c.Value)
		if err != nil {
			return nil, err
		}
		out = append(out, v)
	}
	for _, a := range c.Args {
		v, err := fc.val(a)
		if err != nil {
			return nil, err
		}
		out = append(out, v)
	}
	return out, nil
}

// execCall handles a call instruction (also used for deferred calls with pre-evaluated arguments).
func (fc *FnCtx) execCall(c *ssa.CallCommon, at ssa.Value, rt types.Type) (*Val, error) {
	args, err := fc.args(c)
	if err != nil {
		return nil, err
	}
	return fc.doCall(c, args, at, rt)
}

func calleeName(c *ssa.CallCommon) string {
	if c.IsInvoke() {
		return types.TypeString(c.Value.Type(), nil) + "." + c.Method.Name()
	}
	switch f := c.Value.(type) {
	case *ssa.Function:
		return f.String()
	case *ssa.Builtin:
		return "builtin." + f.Name()
	case *ssa.MakeClosure:
		return f.Fn.(*ssa.Function).String()
	}
	return "dynamic"
}

func shortCallee(n string) string {
	n = strings.ReplaceAll(n, repoModule+"/", "")
	n = strings.ReplaceAll(n, repoModule+".", "")
	n = strings.ReplaceAll(n, "github.com/tokenized/pkg/", "")
	n = strings.ReplaceAll(n, "github.com/tokenized/", "")
	n = strings.ReplaceAll(n, "github.com/pkg/", "")
	return n
}

func (fc *FnCtx) noteCall(name string) {
	top := fc.topCtx()
	sn := shortCallee(name)
	if strings.HasPrefix(sn, "logger.") || strings.HasPrefix(sn, "fmt.") || strings.HasPrefix(sn, "builtin.") {
		return
	}
	top.callCount[sn]++
	top.lastCall = fmt.Sprintf("%s#%d", sn, top.callCount[sn])
	if fc != top {
		fc.lastCall = top.lastCall
	}
}

func (fc *FnCtx) doCall(c *ssa.CallCommon, args []Val, at ssa.Value, rt types.Type) (*Val, error) {
	name := calleeName(c)
	var result *Val
	setResult := func(v Val) {
		if at != nil {
			fc.env[at] = v
		}
		result = &v
	}
	if b, ok := c.Value.(*ssa.Builtin); ok && !c.IsInvoke() {
		v, err := fc.execBuiltin(b, c, args, at, rt)
		if err != nil {
			return nil, err
		}
		return v, nil
	}
	fc.noteCall(name)
	if fc.parent == nil && fc.con != nil && len(fc.con.Lemmas) > 0 {
		if err := fc.lemmasBefore(c); err != nil {
			return nil, err
		}
	}
	// 1. contracts (modular)
	var con *Contract
	if c.IsInvoke() {
		con = fc.prog.Cons.Iface[name]
		if con == nil {
			// try with the named interface's package-qualified short name
			con = fc.prog.Cons.Iface[shortCallee(name)]
		}
	} else if f, ok := c.Value.(*ssa.Function); ok {
		con = fc.prog.Cons.ByFunc[f]
	} else if nt, ok := c.Value.Type().(*types.Named); ok && nt.Obj().Pkg() != nil {
		con = fc.prog.Cons.FuncType[nt.Obj().Pkg().Path()+"."+nt.Obj().Name()]
	}
	if con != nil {
		top := fc.topCtx()
		// a function is never inlined into itself; recursion uses the contract (induction hypothesis)
		_ = top
		v, err := fc.applyContract(con, c, args, rt)
		if err != nil {
			return nil, err
		}
		fc.havocLastRecv() // the callee may receive
		if v != nil {
			setResult(*v)
		}
		return result, nil
	}
	// 2. builtin models of library functions
	if name == "math/rand.Shuffle" {
		return nil, fc.modelShuffle(c)
	}
	if m, ok := builtinModels[name]; ok {
		v, err := m(fc, c, args, rt)
		if err != nil {
			return nil, err
		}
		if v != nil {
			setResult(*v)
		}
		return result, nil
	}
	// 3. inline small loop-free callees
	if f, ok := c.Value.(*ssa.Function); ok && fc.inlinable(f) {
		v, err := fc.inline(f, args, rt)
		if err != nil {
			return nil, err
		}
		if v != nil {
			setResult(*v)
		}
		return result, nil
	}
	// 4. effect-free library calls (results unconstrained)
	if effectFree(name) {
		fc.vc.trust("calls into logger/fmt/strconv/time/errors-formatting are effect-free on modelled state and do not panic")
		if rt != nil && !isEmptyTuple(rt) {
			setResult(fc.symbolic("r."+smtIdent(shortCallee(name)), rt))
		}
		return result, nil
	}
	// 5. unknown callee: havoc everything
	fc.vc.warn("%s: call to %s without contract: all heap state havocked", fc.fn.Name(), name)
	fc.havocAll()
	if rt != nil && !isEmptyTuple(rt) {
		setResult(fc.symbolic("r."+smtIdent(shortCallee(name)), rt))
	}
	return result, nil
}

func isEmptyTuple(t types.Type) bool {
	tup, ok := t.(*types.Tuple)
	return ok && tup.Len() == 0
}

func effectFree(name string) bool {
	for _, p := range []string{"github.com/tokenized/logger.", "(*github.com/tokenized/logger.", "(github.com/tokenized/logger.", "fmt.", "strconv.", "time.", "(time.", "(*time.",
		"strings.", "math.", "unicode.", "encoding/hex.", "(context.Context).", "context.", "math/rand.", "sort.Search", "(github.com/google/uuid.UUID).String",
		"(github.com/tokenized/pkg/bitcoin.Hash32).String", "(*github.com/tokenized/pkg/bitcoin.Hash32).String", "(*math/big.Int).Text", "(*math/big.Int).String",
		"github.com/google/uuid.New", "(*github.com/tokenized/threads.", "github.com/tokenized/threads.", "net.", "(net.", "(*net.", "os.", "(*sync.WaitGroup).",
		"runtime.", "(*sync.Once).", "(*bytes.Buffer).", "(*bytes.Reader).", "bytes.", "crypto/", "(crypto/", "hash.", "unicode/utf8.", "(*github.com/tokenized/threads.WaitingBuffer).", "(net.IP).", "(*math/rand.", "github.com/tokenized/pkg/wire.New", "error.Error", "github.com/tokenized/pkg/wire.VarIntSerializeSize", "(*github.com/tokenized/pkg/wire.MsgTx).SerializeSize"} {
		if strings.HasPrefix(name, p) {
			return true
		}
	}
	return false
}

func (fc *FnCtx) havocAll() {
	st := fc.cur
	a := fc.alloc()
	for k := range st.sorts {
		fc.noteWrite(k)
	}
	na := fc.vc.fresh("H.alloc", "Int")
	st.heap["alloc"] = na
	fc.vc.assume(st.reach, "(>= "+na+" "+a+")")
	ks := sortedKeys(st.sorts)
	// after havoc-all only the contract's ensures speak about the new state: typing closures are not re-emitted
	// (sound: fewer assumptions), which keeps the queries small
	fc.noClosure = true
	for _, k := range ks {
		if k == "alloc" {
			continue
		}
		fc.havocComp(k, st.sorts[k], na)
	}
	fc.noClosure = false
	st.epoch = fc.vc.nfresh
}

// havocHeap: like havocAll but ghost streams/counters and channel state are kept.
func (fc *FnCtx) havocHeap() {
	st := fc.cur
	a := fc.alloc()
	na := fc.vc.fresh("H.alloc", "Int")
	st.heap["alloc"] = na
	fc.vc.assume(st.reach, "(>= "+na+" "+a+")")
	fc.noClosure = true
	for _, k := range sortedKeys(st.sorts) {
		if k == "alloc" || strings.HasPrefix(k, "GH.") || strings.HasPrefix(k, "CN.") || strings.HasPrefix(k, "CL.") {
			continue
		}
		fc.noteWrite(k)
		fc.havocComp(k, st.sorts[k], na)
	}
	fc.noClosure = false
}

func (fc *FnCtx) inlinable(f *ssa.Function) bool {
	if len(f.Blocks) == 0 || fc.depth >= maxInlineDepth {
		return false
	}
	if usesRecover(f) {
		return false
	}
	pkgPath := ""
	if f.Pkg != nil {
		pkgPath = f.Pkg.Pkg.Path()
	} else if f.Parent() != nil && f.Parent().Pkg != nil {
		pkgPath = f.Parent().Pkg.Pkg.Path()
	}
	if !fc.prog.RepoPkgs[pkgPath] && !inlineDeps[f.String()] {
		return false
	}
	n := 0
	for _, b := range f.Blocks {
		n += len(b.Instrs)
		for _, s := range b.Succs {
			if s.Dominates(b) {
				return false // has a loop
			}
		}
	}
	if n > maxInlineInstrs {
		return false
	}
	for c := fc; c != nil; c = c.parent {
		if c.fn == f {
			return false
		}
	}
	return true
}

// inlineDeps: dependency functions that are analysed from their source like repository code.
var inlineDeps = map[string]bool{}

func (fc *FnCtx) inline(f *ssa.Function, args []Val, rt types.Type) (*Val, error) {
	top := fc.topCtx()
	top.vc.nfresh++
	sub := &FnCtx{vc: fc.vc, prog: fc.prog, fn: f, parent: fc, depth: fc.depth + 1,
		prefix: fmt.Sprintf("%si%d.", fc.prefix, top.vc.nfresh), oblCount: top.oblCount, lastCall: fc.lastCall}
	// interior pointers passed as arguments stay locations inside the inlined body
	if err := sub.execBody(fc.cur, args); err != nil {
		return nil, err
	}
	if rt == nil {
		rt = f.Signature.Results()
	}
	if len(sub.exits) == 0 {
		// callee never returns (always panics)
		fc.cur.reach = "false"
		if rt != nil && !isEmptyTuple(rt) {
			v := fc.symbolic("r.dead", rt)
			return &v, nil
		}
		return nil, nil
	}
	var states []*State
	var conds []string
	for _, e := range sub.exits {
		states = append(states, e.state)
		conds = append(conds, e.state.reach)
	}
	merged := fc.mergeStates(states, conds, sub.prefix+"ret")
	fc.cur = merged
	fc.lastCall = sub.lastCall
	nres := f.Signature.Results().Len()
	if nres == 0 {
		return nil, nil
	}
	mergeVal := func(i int) Val {
		t := sub.exits[len(sub.exits)-1].results[i].T
		for k := len(sub.exits) - 2; k >= 0; k-- {
			t = mkIte(conds[k], sub.exits[k].results[i].T, t)
		}
		rtyp := f.Signature.Results().At(i).Type()
		s := fc.vc.sortOf(rtyp)
		if len(t) > 24 {
			n := fc.vc.fresh(sub.prefix+"res", string(s))
			fc.vc.assert(mkEq(n, t))
			t = n
		}
		return Val{T: t, S: s, Typ: rtyp}
	}
	if nres == 1 {
		v := mergeVal(0)
		return &v, nil
	}
	var tup []Val
	for i := 0; i < nres; i++ {
		tup = append(tup, mergeVal(i))
	}
	v := Val{Tup: tup, Typ: f.Signature.Results()}
	return &v, nil
}

// ---------------------------------------------------------------------------------------------
// contracts at call sites

func (fc *FnCtx) paramNames(con *Contract) []string {
	if con.Fn != nil {
		var ns []string
		for _, p := range con.Fn.Params {
			ns = append(ns, p.Name())
		}
		return ns
	}
	return con.Params
}

func (fc *FnCtx) specEnv(pkgPath string, st, old *State) *SpecEnv {
	return &SpecEnv{fc: fc, pkgPath: pkgPath, vars: map[string]Val{}, st: st, old: old}
}

func bindResults(se *SpecEnv, results []Val) {
	for i, r := range results {
		se.vars[fmt.Sprintf("result%d", i)] = r
	}
	if len(results) == 1 {
		se.vars["result"] = results[0]
	}
}

func (fc *FnCtx) applyContract(con *Contract, c *ssa.CallCommon, args []Val, rt types.Type) (*Val, error) {
	names := fc.paramNames(con)
	if len(names) != len(args) {
		return nil, unsupportedf("contract %s: %d parameter names for %d arguments", con.Name, len(names), len(args))
	}
	pre := fc.cur.clone()
	se := fc.specEnv(con.PkgPath, pre, pre)
	for i, n := range names {
		a := args[i]
		if a.Loc != nil && byReferenceArg(a) {
			// interior pointer to a mutable aggregate (slice, map, struct): passed by reference; the contract reads
			// and writes it through the caller's location
			se.vars[n] = a
			continue
		}
		if a.Loc != nil {
			m, err := fc.materialize(a)
			if err != nil {
				return nil, err
			}
			a = m
			pre = fc.cur.clone()
			se.st, se.old = pre, pre
		}
		se.vars[n] = a
	}
	for _, l := range con.Lets {
		v, err := se.expr(l.Expr)
		if err != nil {
			return nil, fmt.Errorf("%s: let %s: %v", con.Pos, l.Name, err)
		}
		se.vars[l.Name] = v
	}
	callee := shortCallee(calleeName(c))
	for i, r := range con.Requires {
		t, err := se.boolExpr(r.Expr)
		if err != nil {
			return nil, fmt.Errorf("%s: requires of %s: %v", r.Pos, con.Name, err)
		}
		lbl := r.Label
		if lbl == "" {
			lbl = fmt.Sprintf("%d", i+1)
		}
		top := fc.topCtx()
		props := r.Tags
		assumed := false
		if top.con != nil {
			for _, a := range top.con.AssumePre {
				if a == lbl || a == r.Label || strings.HasSuffix(lbl, "."+a) {
					assumed = true
				}
			}
		}
		if !assumed {
			fc.vc.oblige(&Obligation{Name: fc.oblName("pre", callee+"["+lbl+"]"), Kind: "pre", Props: props, Func: shortName(top.fn),
				Guard: fc.cur.reach, Goal: t, Desc: "precondition of " + callee + ": " + r.Src})
		} else {
			fc.vc.trust("assumed callee precondition " + lbl + " of " + callee + " (protocol-conformant traffic)")
		}
		fc.vc.assume(fc.cur.reach, t)
	}
	// effects
	if con.ModAll {
		fc.havocAll()
	} else if con.ModHeap {
		fc.havocHeap()
		if err := fc.applyModifies(con, se, pre); err != nil {
			return nil, err
		}
	} else {
		if err := fc.applyModifies(con, se, pre); err != nil {
			return nil, err
		}
	}
	// results
	var results []Val
	var ret *Val
	if rt != nil && !isEmptyTuple(rt) {
		v := fc.symbolic("r."+smtIdent(callee), rt)
		ret = &v
		if len(v.Tup) > 0 {
			results = v.Tup
		} else {
			results = []Val{v}
		}
	}
	post := fc.specEnv(con.PkgPath, fc.cur, pre)
	for k, v := range se.vars {
		post.vars[k] = v
	}
	bindResults(post, results)
	for _, e := range con.Ensures {
		t, err := post.boolExpr(e.Expr)
		if err != nil {
			return nil, fmt.Errorf("%s: ensures of %s: %v", e.Pos, con.Name, err)
		}
		fc.vc.assume(fc.cur.reach, t)
	}
	// a reader that the callee left marked as failed failed at its source: writes to tee destinations (byte
	// counters, in-memory buffers) do not fail, so the failure is visible along the whole tee chain
	if len(fc.readFails) > 0 {
		fc.vc.trust("a failed read through io.TeeReader is a failed read of its source (tee destinations - counters and buffers - do not fail)")
		preF := fc.compAt(pre, ghFailed, arraySort("Int"))
		nowF := fc.getComp(ghFailed, arraySort("Int"))
		for _, rf := range fc.readFails {
			fc.vc.assume(fc.cur.reach, mkImplies(mkAnd(mkEq(sel(nowF, rf[0]), "1"), mkNot(mkEq(sel(preF, rf[0]), "1"))), mkEq(rf[1], "1")))
		}
		fc.readFails = nil
	}
	if con.Trusted {
		fc.vc.trust("assumed contract: " + con.Name)
	}
	return ret, nil
}

// modTarget is one (component, references) pair a contract or loop may modify.
type modTarget struct {
	comp string
	sort string
	refs []string // allowed references (below the frontier); nil with all=true means every reference
	all  bool
}

// readsOf collects the readers named by reads(r) items of the modifies clause being evaluated (consumed by
// applyModifies / the frame check).
var readsOfMu sync.Mutex

func (fc *FnCtx) modTargets(items []ast.Expr, se *SpecEnv) ([]modTarget, error) {
	var readsOf []string
	defer func() { fc.lastReads = readsOf }()
	var out []modTarget
	add := func(comp, sort, ref string) {
		for i := range out {
			if out[i].comp == comp {
				if ref == "" {
					out[i].all = true
				} else {
					out[i].refs = append(out[i].refs, ref)
				}
				return
			}
		}
		mt := modTarget{comp: comp, sort: sort}
		if ref == "" {
			mt.all = true
		} else {
			mt.refs = []string{ref}
		}
		out = append(out, mt)
	}
	for _, it := range items {
		switch x := it.(type) {
		case *ast.Ident:
			if x.Name != "allbig" {
				return nil, fmt.Errorf("unsupported modifies item %s", exprString(it))
			}
			add(bigComp, arraySort("Int"), "") // the mathematical value of every big.Int
		case *ast.SelectorExpr:
			base, err := se.expr(x.X)
			if err != nil {
				return nil, err
			}
			pt, ok := base.Typ.Underlying().(*types.Pointer)
			if !ok {
				return nil, fmt.Errorf("modifies %s: base is not a pointer", exprString(it))
			}
			found := false
			for _, f := range fc.vc.fieldsOf(pt.Elem()) {
				if f.name == x.Sel.Name {
					add(fieldComp(pt.Elem(), f.name), arraySort(string(f.sort)), base.T)
					found = true
				}
			}
			if !found {
				return nil, fmt.Errorf("modifies %s: no such field", exprString(it))
			}
		case *ast.StarExpr:
			p, err := se.expr(x.X)
			if err != nil {
				return nil, err
			}
			l, err := fc.derefLoc(p)
			if err != nil {
				return nil, err
			}
			if l.Kind == locObj {
				for _, f := range fc.vc.fieldsOf(l.Typ) {
					add(fieldComp(l.Typ, f.name), arraySort(string(f.sort)), l.Ref)
				}
			} else if l.Kind == locElem {
				add(l.Comp, arraySort(arraySort(fc.sortStr(l.rootType()))), l.Ref)
			} else {
				add(l.Comp, arraySort(fc.sortStr(l.rootType())), l.Ref)
			}
		case *ast.CallExpr:
			id, _ := x.Fun.(*ast.Ident)
			if id == nil || len(x.Args) != 1 {
				return nil, fmt.Errorf("unsupported modifies item %s", exprString(it))
			}
			switch id.Name {
			case "elems":
				s, err := se.expr(x.Args[0])
				if err != nil {
					return nil, err
				}
				st, ok := s.Typ.Underlying().(*types.Slice)
				if !ok {
					return nil, fmt.Errorf("elems needs a slice")
				}
				add(elemComp(st.Elem()), arraySort(arraySort(fc.sortStr(st.Elem()))), proj("s-arr", s.T))
			case "mapof":
				m, err := se.expr(x.Args[0])
				if err != nil {
					return nil, err
				}
				mt, ok := m.Typ.Underlying().(*types.Map)
				if !ok {
					return nil, fmt.Errorf("mapof needs a map")
				}
				ks, vs := fc.mapSorts(mt)
				mh, mv, ml := mapComps(m.Typ)
				add(mh, arraySort("(Array "+ks+" Bool)"), m.T)
				add(mv, arraySort("(Array "+ks+" "+vs+")"), m.T)
				add(ml, arraySort("Int"), m.T)
			case "bigv":
				p, err := se.expr(x.Args[0])
				if err != nil {
					return nil, err
				}
				add("F.math.big.Int.v", arraySort("Int"), p.T)
			case "chanof":
				p, err := se.expr(x.Args[0])
				if err != nil {
					return nil, err
				}
				ct, ok := p.Typ.Underlying().(*types.Chan)
				if !ok {
					return nil, fmt.Errorf("chanof needs a channel")
				}
				add("CN.sent", arraySort("Int"), p.T)
				add("CN.recvd", arraySort("Int"), p.T)
				add("CN.closed", arraySort("Bool"), p.T)
				add("CL."+typeKey(ct.Elem()), arraySort(arraySort(fc.sortStr(ct.Elem()))), p.T)
			case "allof":
				// allof(T.f): the whole component of field f of struct type T; allof(elems([]T)) not needed so far
				sel, ok := x.Args[0].(*ast.SelectorExpr)
				if !ok {
					return nil, fmt.Errorf("allof needs Type.field")
				}
				pkg := fc.prog.pkgByPath(se.pkgPath)
				t, err := resolveType(pkg, sel.X)
				if err != nil {
					return nil, err
				}
				found := false
				for _, f := range fc.vc.fieldsOf(t) {
					if f.name == sel.Sel.Name {
						add(fieldComp(t, f.name), arraySort(string(f.sort)), "")
						found = true
					}
				}
				if !found {
					return nil, fmt.Errorf("allof: no field %s", sel.Sel.Name)
				}
			case "allelems":
				pkg := fc.prog.pkgByPath(se.pkgPath)
				t, err := resolveType(pkg, x.Args[0])
				if err != nil {
					return nil, err
				}
				add(elemComp(t), arraySort(arraySort(fc.sortStr(t))), "")
			case "reads":
				p, err := se.expr(x.Args[0])
				if err != nil {
					return nil, err
				}
				readsOf = append(readsOf, p.T)
				_ = p
			case "typesof":
				// typesof(pkg): every field / element component of the struct types of a package (the unknown
				// concrete object behind an interface value of that package, e.g. a decoded wire message)
				id, ok := x.Args[0].(*ast.Ident)
				if !ok {
					return nil, fmt.Errorf("typesof needs a package name")
				}
				for _, comp := range sortedKeys(fc.cur.sorts) {
					if strings.HasPrefix(comp, "F."+id.Name+".") || strings.HasPrefix(comp, "E."+id.Name+".") || strings.HasPrefix(comp, "E.ptr."+id.Name+".") || strings.HasPrefix(comp, "E.sl."+id.Name+".") {
						add(comp, fc.cur.sorts[comp], "")
					}
				}
			case "allchans":
				pkg := fc.prog.pkgByPath(se.pkgPath)
				t, err := resolveType(pkg, x.Args[0])
				if err != nil {
					return nil, err
				}
				add("CN.sent", arraySort("Int"), "")
				add("CN.recvd", arraySort("Int"), "")
				add("CN.closed", arraySort("Bool"), "")
				add("CL."+typeKey(t), arraySort(arraySort(fc.sortStr(t))), "")
			case "allmaps":
				pkg := fc.prog.pkgByPath(se.pkgPath)
				t, err := resolveType(pkg, x.Args[0])
				if err != nil {
					return nil, err
				}
				mt, ok := t.Underlying().(*types.Map)
				if !ok {
					return nil, fmt.Errorf("allmaps needs a map type")
				}
				ks, vs := fc.mapSorts(mt)
				mh, mv, ml := mapComps(t)
				add(mh, arraySort("(Array "+ks+" Bool)"), "")
				add(mv, arraySort("(Array "+ks+" "+vs+")"), "")
				add(ml, arraySort("Int"), "")
			case "ghost":
				// ghost("name"): a named ghost component of sort (Array Int Int)
				bl, ok := x.Args[0].(*ast.BasicLit)
				if !ok {
					return nil, fmt.Errorf("ghost needs a string literal")
				}
				add("GH."+strings.Trim(bl.Value, "\""), arraySort("Int"), "")
			default:
				return nil, fmt.Errorf("unsupported modifies item %s", exprString(it))
			}
		default:
			return nil, fmt.Errorf("unsupported modifies item %s", exprString(it))
		}
	}
	return out, nil
}

// frameFormula: every reference at or below the frontier that is not listed keeps its content.
func frameFormula(vc *VC, oldT, newT, frontier string, mt modTarget) string {
	if mt.all {
		return "true"
	}
	vc.nfresh++
	r := fmt.Sprintf("q!r!%d", vc.nfresh)
	// reference 0 is nil / the empty region: it holds no cells, so frames range over 1..frontier
	conds := []string{"(< 0 " + r + ")", "(<= " + r + " " + frontier + ")"}
	for _, x := range mt.refs {
		conds = append(conds, "(distinct "+r+" "+x+")")
	}
	return "(forall ((" + r + " Int)) (! (=> " + mkAnd(conds...) + " (= (select " + newT + " " + r + ") (select " + oldT + " " + r + "))) :pattern ((select " + newT + " " + r + ")) :qid fr." + smtIdent(mt.comp) + "))"
}

func (fc *FnCtx) applyModifies(con *Contract, se *SpecEnv, pre *State) error {
	targets, err := fc.modTargets(con.Modifies, se)
	if err != nil {
		return fmt.Errorf("%s: modifies of %s: %v", con.Pos, con.Name, err)
	}
	// reads(r): the callee reads some number of bytes from r; the tee chain below r sees the same bytes
	for _, rd := range fc.lastReads {
		d := fc.vc.fresh("nread.call", "Int")
		fl := fc.vc.fresh("nfail.call", "Int")
		fc.vc.assume(fc.cur.reach, "(and (<= 0 "+d+") (<= 0 "+fl+") (<= "+fl+" 1))")
		fc.readBytesF(rd, d, fl)
		fc.readFails = append(fc.readFails, [2]string{rd, fl})
	}
	frontier := fc.alloc()
	// the callee may allocate
	na := fc.vc.fresh("H.alloc", "Int")
	fc.vc.assume(fc.cur.reach, "(>= "+na+" "+frontier+")")
	fc.cur.heap["alloc"] = na
	sentBefore := fc.getComp("CN.sent", arraySort("Int"))
	for _, mt := range targets {
		oldT := fc.getComp(mt.comp, mt.sort)
		fc.noteWrite(mt.comp)
		newT := fc.havocComp(mt.comp, mt.sort, na)
		fc.vc.assume(fc.cur.reach, frameFormula(fc.vc, oldT, newT, frontier, mt))
		fc.channelAxioms(mt.comp, oldT, newT, sentBefore)
	}
	return nil
}

// channelAxioms: whatever code runs, the ghost log of the values sent on a channel is append-only (entries below
// the old send count are kept). Monotonicity of the counters and of the closed flag is equally true but the extra
// quantifiers made other proofs unstable, so they are not asserted.
func (fc *FnCtx) channelAxioms(comp, oldT, newT, sentBefore string) {
	if os.Getenv("GOVC_NOCHANAX") != "" {
		return
	}
	fc.vc.nfresh++
	c := fmt.Sprintf("q!c!%d", fc.vc.nfresh)
	n := fmt.Sprintf("q!n!%d", fc.vc.nfresh)
	switch {
	case strings.HasPrefix(comp, "CL."):
		fc.vc.assume(fc.cur.reach, "(forall (("+c+" Int) ("+n+" Int)) (! (=> (< "+n+" (select "+sentBefore+" "+c+")) (= (select (select "+newT+" "+c+") "+n+") (select (select "+oldT+" "+c+") "+n+"))) :pattern ((select (select "+newT+" "+c+") "+n+")) :qid chan.log))")
	}
}

// ---------------------------------------------------------------------------------------------
// loops

func (fc *FnCtx) computeLoopMods(li *loopInfo) {
	for b := range li.blocks {
		for _, ins := range b.Instrs {
			fc.instrMods(ins, li, 0)
		}
	}
}

func (fc *FnCtx) addStructMods(li *loopInfo, t types.Type) {
	for _, f := range fc.vc.fieldsOf(t) {
		li.mods[fieldComp(t, f.name)] = true
	}
}

// storeComps adds the components a store through the given address expression may write.
func (fc *FnCtx) addrMods(li *loopInfo, addr ssa.Value) {
	switch a := addr.(type) {
	case *ssa.FieldAddr:
		st := a.X.Type().Underlying().(*types.Pointer).Elem()
		// nested field address: the root component is that of the outermost FieldAddr/IndexAddr chain
		root := ssa.Value(a)
		for {
			switch r := root.(type) {
			case *ssa.FieldAddr:
				if inner, ok := r.X.(*ssa.FieldAddr); ok {
					root = inner
					continue
				}
				if inner, ok := r.X.(*ssa.IndexAddr); ok {
					root = inner
					continue
				}
			}
			break
		}
		switch r := root.(type) {
		case *ssa.FieldAddr:
			rst := r.X.Type().Underlying().(*types.Pointer).Elem()
			li.mods[fieldComp(rst, rst.Underlying().(*types.Struct).Field(r.Field).Name())] = true
		case *ssa.IndexAddr:
			fc.addrMods(li, r)
		}
		_ = st
	case *ssa.IndexAddr:
		switch bt := a.X.Type().Underlying().(type) {
		case *types.Slice:
			li.mods[elemComp(bt.Elem())] = true
		case *types.Pointer:
			if at, ok := bt.Elem().Underlying().(*types.Array); ok {
				li.mods[elemComp(at.Elem())] = true
			}
		}
	case *ssa.Global:
		li.mods["G."+smtIdent(a.Pkg.Pkg.Path()+"."+a.Name())] = true
	default:
		pt, ok := addr.Type().Underlying().(*types.Pointer)
		if !ok {
			li.modAll = true
			return
		}
		el := pt.Elem()
		if _, ok := el.Underlying().(*types.Struct); ok {
			fc.addStructMods(li, el)
		} else {
			li.mods[boxComp(el)] = true
		}
	}
}

// allocRoot returns the Alloc an address expression is rooted in, if any.
func allocRoot(addr ssa.Value) *ssa.Alloc {
	for {
		switch a := addr.(type) {
		case *ssa.Alloc:
			return a
		case *ssa.FieldAddr:
			addr = a.X
		case *ssa.IndexAddr:
			if _, ok := a.X.Type().Underlying().(*types.Pointer); ok {
				addr = a.X
			} else {
				return nil
			}
		default:
			return nil
		}
	}
}

func (fc *FnCtx) instrMods(ins ssa.Instruction, li *loopInfo, depth int) {
	switch x := ins.(type) {
	case *ssa.Store:
		if a, ok := x.Addr.(*ssa.Alloc); ok && immutableLocalStruct(a) {
			break
		}
		fc.addrMods(li, x.Addr)
		if a := allocRoot(x.Addr); a != nil {
			if at, isArr := a.Type().(*types.Pointer).Elem().Underlying().(*types.Array); isArr {
				li.mods[boxComp(a.Type().(*types.Pointer).Elem())] = true
				li.mods[elemComp(at.Elem())] = true
			}
		}
		if a := allocRoot(x.Addr); a != nil && depth == 0 && !li.blocks[a.Block()] {
			li.localAllocs = append(li.localAllocs, a)
		}
	case *ssa.Alloc:
		t := x.Type().(*types.Pointer).Elem()
		if immutableLocalStruct(x) {
			break
		}
		switch u := t.Underlying().(type) {
		case *types.Struct:
			fc.addStructMods(li, t)
		case *types.Array:
			li.mods[elemComp(u.Elem())] = true
			li.mods[boxComp(t)] = true
		default:
			li.mods[boxComp(t)] = true
		}
	case *ssa.MakeSlice:
		li.mods[elemComp(x.Type().Underlying().(*types.Slice).Elem())] = true
	case *ssa.MakeMap:
		mh, mv, ml := mapComps(x.Type())
		li.mods[mh], li.mods[mv], li.mods[ml] = true, true, true
	case *ssa.MapUpdate:
		mh, mv, ml := mapComps(x.Map.Type())
		li.mods[mh], li.mods[mv], li.mods[ml] = true, true, true
	case *ssa.MakeChan, *ssa.Send, *ssa.Select:
		li.mods["CN.sent"], li.mods["CN.closed"], li.mods["CN.cap"], li.mods["CN.recvd"] = true, true, true, true
		if _, sel := ins.(*ssa.Select); sel {
			li.mods[ghLastRecv] = true
		}
		switch y := ins.(type) {
		case *ssa.Send:
			li.mods["CL."+typeKey(y.Chan.Type().Underlying().(*types.Chan).Elem())] = true
		case *ssa.Select:
			for _, st := range y.States {
				li.mods["CL."+typeKey(st.Chan.Type().Underlying().(*types.Chan).Elem())] = true
			}
		}
	case *ssa.UnOp:
		if x.Op.String() == "<-" {
			li.mods["CN.recvd"] = true
			li.mods[ghLastRecv] = true
		}
	case *ssa.MakeClosure, *ssa.MakeInterface:
		// allocation only
	case *ssa.Convert:
		if _, ok := x.Type().Underlying().(*types.Slice); ok {
			// []byte(string) allocates
		}
	case *ssa.Defer:
		// a deferred call writes what the call writes (it runs before the enclosing function returns)
		fc.callMods(x.Common(), li, depth)
	case ssa.CallInstruction:
		fc.callMods(x.Common(), li, depth)
	}
}

func (fc *FnCtx) callMods(c *ssa.CallCommon, li *loopInfo, depth int) {
	name := calleeName(c)
	if b, ok := c.Value.(*ssa.Builtin); ok && !c.IsInvoke() {
		switch b.Name() {
		case "append":
			li.mods[elemComp(c.Args[0].Type().Underlying().(*types.Slice).Elem())] = true
		case "copy":
			if st, ok := c.Args[0].Type().Underlying().(*types.Slice); ok {
				li.mods[elemComp(st.Elem())] = true
			}
		case "delete":
			mh, mv, ml := mapComps(c.Args[0].Type())
			li.mods[mh], li.mods[mv], li.mods[ml] = true, true, true
		case "close":
			li.mods["CN.closed"] = true
		}
		return
	}
	var con *Contract
	if c.IsInvoke() {
		con = fc.prog.Cons.Iface[name]
		if con == nil {
			con = fc.prog.Cons.Iface[shortCallee(name)]
		}
	} else if f, ok := c.Value.(*ssa.Function); ok {
		con = fc.prog.Cons.ByFunc[f]
	} else if nt, ok := c.Value.Type().(*types.Named); ok && nt.Obj().Pkg() != nil {
		con = fc.prog.Cons.FuncType[nt.Obj().Pkg().Path()+"."+nt.Obj().Name()]
	}
	if con != nil {
		if con.ModAll {
			li.modAll = true
			return
		}
		if con.ModHeap {
			li.modHeap = true
		}
		for _, comp := range fc.staticModComps(con) {
			li.mods[comp] = true
		}
		return
	}
	if name == "math/rand.Shuffle" {
		if mc, ok := c.Args[1].(*ssa.MakeClosure); ok && len(mc.Bindings) == 1 {
			if st, ok := mc.Bindings[0].Type().Underlying().(*types.Slice); ok {
				li.mods[elemComp(st.Elem())] = true
				return
			}
		}
		li.modAll = true
		return
	}
	if name == "sort.Sort" {
		if mi, ok := c.Args[0].(*ssa.MakeInterface); ok {
			if st, ok := mi.X.Type().Underlying().(*types.Slice); ok {
				li.mods[elemComp(st.Elem())] = true
				return
			}
		}
		li.modAll = true
		return
	}
	if ms, ok := builtinMods[name]; ok {
		for _, m := range ms {
			if m == "*" {
				// writes through a pointer argument: the pointee's components
				for _, a := range c.Args {
					if mi, ok := a.(*ssa.MakeInterface); ok {
						a = mi.X
					}
					if _, ok := a.Type().Underlying().(*types.Pointer); ok {
						fc.addrMods(li, a)
					}
				}
				continue
			}
			li.mods[m] = true
		}
		return
	}
	if _, ok := builtinModels[name]; ok {
		return // modelled builtins without entry in builtinMods do not write the heap (beyond allocation)
	}
	if f, ok := c.Value.(*ssa.Function); ok && fc.inlinableStatic(f) && depth < maxInlineDepth {
		for _, b := range f.Blocks {
			for _, ins := range b.Instrs {
				fc.instrMods(ins, li, depth+1)
			}
		}
		return
	}
	if effectFree(name) {
		return
	}
	li.modAll = true
}

func (fc *FnCtx) inlinableStatic(f *ssa.Function) bool {
	save := fc.depth
	fc.depth = 0
	ok := fc.inlinable(f)
	fc.depth = save
	return ok
}

// staticModComps lists the components named by a contract's modifies clause without evaluating references.
func (fc *FnCtx) staticModComps(con *Contract) []string {
	// evaluate in a scratch environment with symbolic parameters; only component names are used
	saveCur := fc.cur
	defer func() { fc.cur = saveCur }()
	if fc.cur == nil {
		fc.cur = &State{heap: map[string]string{}, sorts: map[string]string{}, reach: "true"}
	} else {
		fc.cur = fc.cur.clone()
	}
	se := fc.specEnv(con.PkgPath, fc.cur, fc.cur)
	names := fc.paramNames(con)
	var ptypes []types.Type
	if con.Fn != nil {
		for _, p := range con.Fn.Params {
			ptypes = append(ptypes, p.Type())
		}
	}
	for i, n := range names {
		if i < len(ptypes) {
			se.vars[n] = Val{T: "dummy", S: fc.vc.sortOf(ptypes[i]), Typ: ptypes[i]}
		}
	}
	for _, l := range con.Lets {
		if v, err := se.expr(l.Expr); err == nil {
			se.vars[l.Name] = v
		}
	}
	ts, err := fc.modTargets(con.Modifies, se)
	if err != nil {
		panic(unsupportedf("modifies of %s: %v", con.Name, err))
	}
	var out []string
	for _, t := range ts {
		out = append(out, t.comp)
	}
	if len(fc.lastReads) > 0 {
		out = append(out, ghConsumed, ghCount, ghFailed)
	}
	return out
}

// nameEnvAt builds the source-level name environment at a loop head: parameters, locals whose defining
// DebugRef dominates the head, and the head's phis by their source names.
func (fc *FnCtx) nameEnvAt(li *loopInfo, phiVals map[*ssa.Phi]Val) map[string]Val {
	env := map[string]Val{}
	for _, p := range fc.fn.Params {
		if v, ok := fc.env[p]; ok {
			env[p.Name()] = v
			env[p.Name()+"0"] = v // entry value of a parameter that the body reassigns (Gobra style: r0)
		}
	}
	for _, dr := range fc.debugRefs {
		if dr.IsAddr {
			continue
		}
		id, ok := dr.Expr.(*ast.Ident)
		if !ok {
			continue
		}
		if !(dr.Block() == li.head || dr.Block().Dominates(li.head)) || li.blocks[dr.Block()] {
			continue
		}
		if v, ok := fc.env[dr.X]; ok && v.Loc == nil {
			env[id.Name] = v
		} else if c, ok := dr.X.(*ssa.Const); ok {
			if cv, err := fc.constVal(c); err == nil {
				env[id.Name] = cv
			}
		}
	}
	// locals that live in memory (address-taken): expose *alloc under the variable's name
	for _, b := range fc.fn.Blocks {
		if !(b == li.head || b.Dominates(li.head)) || li.blocks[b] {
			continue
		}
		for _, ins := range b.Instrs {
			if a, ok := ins.(*ssa.Alloc); ok && a.Comment != "" && !strings.Contains(a.Comment, " ") {
				if v, ok := fc.env[a]; ok {
					if _, taken := env[a.Comment]; !taken {
						l, err := fc.derefLoc(v)
						if err == nil && l.Kind != locObj {
							if lv, err := fc.loadAt(fc.cur, l); err == nil {
								env[a.Comment] = Val{T: lv, S: fc.vc.sortOf(l.Typ), Typ: l.Typ}
							}
						} else if err == nil {
							env[a.Comment] = v // pointer to struct local: usable as p.f
						}
					}
				}
			}
		}
	}
	// enclosing and own loop phis
	for _, h := range fc.loopOrder {
		o := fc.loopHeads[h]
		if o != li && !o.blocks[li.head] {
			continue
		}
		for _, ins := range h.Instrs {
			phi, ok := ins.(*ssa.Phi)
			if !ok {
				break
			}
			var v Val
			if o == li {
				v = phiVals[phi]
			} else {
				v = fc.env[phi]
			}
			if v.T == "" && v.Loc == nil {
				continue
			}
			name := phi.Comment
			if name == "" {
				continue
			}
			if name == "rangeindex" {
				env[fmt.Sprintf("rangeindex%d", o.ordinal)] = v
				if o == li {
					env["rangeindex"] = v
				}
				continue
			}
			env[name] = v
		}
	}
	return env
}

func (fc *FnCtx) loopInvariants(li *loopInfo, st *State, phiVals map[*ssa.Phi]Val) ([]string, []Clause, error) {
	if li.con == nil {
		return nil, nil, nil
	}
	se := fc.specEnv(fc.topCon().PkgPath, st, fc.entry)
	se.vars = fc.nameEnvAt(li, phiVals)
	se.loop = li
	for k, v := range fc.letVals {
		if _, ok := se.vars[k]; !ok {
			se.vars[k] = v
		}
	}
	var out []string
	for _, inv := range li.con.Invs {
		t, err := se.boolExpr(inv.Expr)
		if err != nil {
			if fc.topCtx().loopMisaligned {
				// the clause does not fit this loop (the loops changed): no invariant rather than no verdict
				fc.vc.warn("%s: loop %d: clause of contract loop %d does not apply (%v): loop carries no invariant", fc.fn.Name(), li.ordinal, li.con.N, err)
				li.con = nil
				return nil, nil, nil
			}
			return nil, nil, fmt.Errorf("%s: loop %d invariant: %v", inv.Pos, li.ordinal, err)
		}
		out = append(out, t)
	}
	return out, li.con.Invs, nil
}

func (fc *FnCtx) topCon() *Contract {
	for c := fc; c != nil; c = c.parent {
		if c.con != nil {
			return c.con
		}
	}
	return &Contract{PkgPath: fc.fn.Pkg.Pkg.Path()}
}

func (fc *FnCtx) phiRangeFacts(li *loopInfo, vals map[*ssa.Phi]Val) string {
	var fs []string
	for phi, v := range vals {
		fs = append(fs, fc.wellTyped(v.T, phi.Type(), fc.alloc(), 0))
	}
	sort.Strings(fs)
	return mkAnd(fs...)
}

func (fc *FnCtx) enterLoop(li *loopInfo, in *State) error {
	if fc.con == nil && fc.parent != nil {
		return unsupportedf("loop in inlined function %s", fc.fn.Name())
	}
	fc.cur = in
	li.inState = in.clone()
	li.inAlloc = fc.alloc()
	// invariants must hold on entry
	invs, clauses, err := fc.loopInvariants(li, in, li.phiIn)
	if err != nil {
		return err
	}
	top := fc.topCtx()
	for i, t := range invs {
		fc.vc.oblige(&Obligation{Name: fmt.Sprintf("%s/inv-entry:loop%d[%s]", shortName(top.fn), li.ordinal, clauseLabel(clauses[i], i)), Kind: "inv-entry",
			Props: clauses[i].Tags, Func: shortName(top.fn), Guard: in.reach, Goal: t, Desc: clauses[i].Src})
	}
	// loop-modified references below the frontier (from the loop's modifies clause, evaluated at entry)
	li.modRefs = map[string][]string{}
	modAllComps := map[string]bool{}
	if li.con != nil && len(li.con.Mods) > 0 {
		se := fc.specEnv(fc.topCon().PkgPath, in, fc.entry)
		se.vars = fc.nameEnvAt(li, li.phiIn)
		ts, err := fc.modTargets(li.con.Mods, se)
		if err != nil {
			return fmt.Errorf("loop %d modifies: %v", li.ordinal, err)
		}
		for _, t := range ts {
			if t.all {
				modAllComps[t.comp] = true
			}
			li.modRefs[t.comp] = append(li.modRefs[t.comp], t.refs...)
		}
		if len(fc.lastReads) > 0 {
			for _, g := range []string{ghConsumed, ghCount, ghFailed} {
				modAllComps[g] = true
			}
			li.readsAll = true
		}
	}
	// function-private memory (address-taken locals allocated before the loop) written by the body
	for _, a := range li.localAllocs {
		av, ok := fc.env[a]
		if !ok {
			continue
		}
		t := a.Type().(*types.Pointer).Elem()
		switch u := t.Underlying().(type) {
		case *types.Struct:
			for _, f := range fc.vc.fieldsOf(t) {
				c := fieldComp(t, f.name)
				li.modRefs[c] = append(li.modRefs[c], av.T)
			}
		case *types.Array:
			li.modRefs[elemComp(u.Elem())] = append(li.modRefs[elemComp(u.Elem())], av.T)
			li.modRefs[boxComp(t)] = append(li.modRefs[boxComp(t)], av.T)
		default:
			li.modRefs[boxComp(t)] = append(li.modRefs[boxComp(t)], av.T)
		}
	}
	// havoc
	st := in.clone()
	fc.cur = st
	if li.modAll {
		fc.vc.warn("%s: loop %d calls code without contract: all heap state havocked at the loop head", fc.fn.Name(), li.ordinal)
		fc.havocAll()
	} else {
		heapAll := li.modHeap || (li.con != nil && li.con.ModHeap)
		if heapAll {
			fc.havocHeap()
		}
		na := fc.vc.fresh("H.alloc", "Int")
		fc.vc.assume(st.reach, "(>= "+na+" "+fc.alloc()+")")
		st.heap["alloc"] = na
		for _, comp := range sortedKeys(li.mods) {
			srt, ok := st.sorts[comp]
			if !ok {
				continue // never accessed anywhere in this function
			}
			if heapAll && !(strings.HasPrefix(comp, "GH.") || strings.HasPrefix(comp, "CN.") || strings.HasPrefix(comp, "CL.")) {
				continue // already havocked as a whole
			}
			oldT := fc.getComp(comp, srt)
			newT := fc.havocComp(comp, srt, na)
			if strings.HasPrefix(srt, "(Array Int ") && !modAllComps[comp] {
				fc.vc.assume(st.reach, frameFormula(fc.vc, oldT, newT, li.inAlloc, modTarget{comp: comp, refs: li.modRefs[comp]}))
			}
			if strings.HasPrefix(comp, "CN.") || strings.HasPrefix(comp, "CL.") {
				fc.channelAxioms(comp, oldT, newT, fc.compAt(li.inState, "CN.sent", arraySort("Int")))
			}
		}
	}
	// phis become fresh symbols
	vals := map[*ssa.Phi]Val{}
	for _, ins := range li.head.Instrs {
		phi, ok := ins.(*ssa.Phi)
		if !ok {
			break
		}
		s := fc.vc.sortOf(phi.Type())
		n := fc.name(phi)
		if fc.vc.declSet[n] {
			n = fc.vc.fresh(n, string(s))
		} else {
			fc.vc.declare(n, string(s))
		}
		v := Val{T: n, S: s, Typ: phi.Type()}
		fc.env[phi] = v
		vals[phi] = v
	}
	fc.vc.assume(st.reach, fc.phiRangeFacts(li, vals))
	invs2, _, err := fc.loopInvariants(li, st, vals)
	if err != nil {
		return err
	}
	for _, t := range invs2 {
		fc.vc.assume(st.reach, t)
	}
	// lazily created components inside the loop must not be entry-state constants: record the set of
	// components known before the loop so that enterLoop's havoc covers everything the body can read
	return nil
}

func clauseLabel(c Clause, i int) string {
	if c.Label != "" {
		return c.Label
	}
	return fmt.Sprintf("%d", i+1)
}

func (fc *FnCtx) backEdge(from, head *ssa.BasicBlock) error {
	li := fc.loopHeads[head]
	cond := fc.edgeCond[[2]int{from.Index, head.Index}]
	st := fc.blockExit[from]
	save := fc.cur
	fc.cur = st.clone()
	fc.cur.reach = cond
	defer func() { fc.cur = save }()
	// phi values on this edge
	vals := map[*ssa.Phi]Val{}
	for _, ins := range head.Instrs {
		phi, ok := ins.(*ssa.Phi)
		if !ok {
			break
		}
		for j, p := range head.Preds {
			if p == from {
				v, err := fc.val(phi.Edges[j])
				if err != nil {
					return err
				}
				if v.Loc != nil {
					if v, err = fc.materialize(v); err != nil {
						return err
					}
				}
				v.Typ = phi.Type()
				vals[phi] = v
			}
		}
	}
	invs, clauses, err := fc.loopInvariants(li, fc.cur, vals)
	if err != nil {
		return err
	}
	top := fc.topCtx()
	for i, t := range invs {
		fc.vc.oblige(&Obligation{Name: fc.uniq(fmt.Sprintf("%s/inv-preserve:loop%d[%s]", shortName(top.fn), li.ordinal, clauseLabel(clauses[i], i))), Kind: "inv-preserve",
			Props: clauses[i].Tags, Func: shortName(top.fn), Guard: cond, Goal: t, Desc: clauses[i].Src})
	}
	// automatic frame: references below the loop-entry frontier that are not listed keep their content
	if !li.modAll {
		for _, comp := range sortedKeys(li.mods) {
			srt, ok := st.sorts[comp]
			if !ok || !strings.HasPrefix(srt, "(Array Int ") {
				continue
			}
			inT := fc.compAt(li.inState, comp, srt)
			nowT := fc.compAt(fc.cur, comp, srt)
			if inT == nowT {
				continue
			}
			if li.con != nil {
				skip := false
				for _, m := range li.con.Mods {
					_ = m
				}
				if skip {
					continue
				}
			}
			if li.readsAll && (comp == ghConsumed || comp == ghCount || comp == ghFailed) {
				continue
			}
			if comp == ghLastRecv {
				continue // volatile, outside every frame
			}
			if (li.modHeap || (li.con != nil && li.con.ModHeap)) && !(strings.HasPrefix(comp, "GH.") || strings.HasPrefix(comp, "CN.") || strings.HasPrefix(comp, "CL.")) {
				continue
			}
			goal := frameFormula(fc.vc, inT, nowT, li.inAlloc, modTarget{comp: comp, refs: li.modRefs[comp], all: fc.loopModAll(li, comp)})
			if goal == "true" {
				continue
			}
			fc.vc.oblige(&Obligation{Name: fc.uniq(fmt.Sprintf("%s/frame:loop%d[%s]", shortName(top.fn), li.ordinal, comp)), Kind: "frame",
				Func: shortName(top.fn), Guard: cond, Goal: goal, Desc: "loop body writes only fresh or listed references of " + comp})
		}
	}
	return nil
}

func (fc *FnCtx) loopModAll(li *loopInfo, comp string) bool {
	if comp == ghLastRecv {
		return true
	}
	if li.con == nil {
		return false
	}
	for _, m := range li.con.Mods {
		if ce, ok := m.(*ast.CallExpr); ok {
			if id, ok := ce.Fun.(*ast.Ident); ok && (strings.HasPrefix(id.Name, "all") || id.Name == "ghost") {
				se := fc.specEnv(fc.topCon().PkgPath, fc.cur, fc.entry)
				ts, err := fc.modTargets([]ast.Expr{m}, se)
				if err == nil {
					for _, t := range ts {
						if t.comp == comp && t.all {
							return true
						}
					}
				}
			}
		}
	}
	return false
}

func (fc *FnCtx) uniq(name string) string {
	top := fc.topCtx()
	top.oblCount[name]++
	if n := top.oblCount[name]; n > 1 {
		return fmt.Sprintf("%s#%d", name, n)
	}
	return name
}

// ---------------------------------------------------------------------------------------------
// defers

func (fc *FnCtx) runDefers(x *ssa.RunDefers) error {
	blk := x.Block()
	fc.preDeferSite = fc.siteDesc()
	for i := len(fc.defers) - 1; i >= 0; i-- {
		d := fc.defers[i]
		if d.block == blk || d.block.Dominates(blk) {
			if _, err := fc.doCall(&d.instr.Call, d.args, nil, d.instr.Call.Signature().Results()); err != nil {
				return err
			}
			continue
		}
		// conditional: executed only on paths through the defer statement
		if !fc.mayReach(d.block, blk) {
			continue
		}
		before := fc.cur.clone()
		fc.cur.reach = mkAnd(before.reach, d.reach)
		if _, err := fc.doCall(&d.instr.Call, d.args, nil, d.instr.Call.Signature().Results()); err != nil {
			return err
		}
		after := fc.cur
		before.reach = mkAnd(before.reach, mkNot(d.reach))
		merged := fc.mergeStates([]*State{after, before}, []string{after.reach, before.reach}, fmt.Sprintf("%sdefer%d", fc.prefix, i))
		fc.cur = merged
	}
	return nil
}

func (fc *FnCtx) mayReach(from, to *ssa.BasicBlock) bool {
	seen := map[*ssa.BasicBlock]bool{}
	stack := []*ssa.BasicBlock{from}
	for len(stack) > 0 {
		b := stack[len(stack)-1]
		stack = stack[:len(stack)-1]
		if b == to {
			return true
		}
		if seen[b] {
			continue
		}
		seen[b] = true
		stack = append(stack, b.Succs...)
	}
	return false
}

// byReferenceArg: interior pointers to slices, maps and structs are passed to contracts by reference.
func byReferenceArg(a Val) bool {
	if a.Loc == nil {
		return false
	}
	switch a.Loc.Typ.Underlying().(type) {
	case *types.Slice, *types.Map, *types.Struct:
		return true
	}
	return false
}

// lemmasBefore proves and then assumes the contract's `lemma ... before F` clauses at a direct call of F.
func (fc *FnCtx) lemmasBefore(c *ssa.CallCommon) error {
	callee := c.StaticCallee()
	if callee == nil {
		return nil
	}
	for i, lm := range fc.con.Lemmas {
		match := false
		for _, f := range lm.Before {
			if f == callee {
				match = true
			}
		}
		if !match {
			continue
		}
		se := fc.specEnv(fc.con.PkgPath, fc.cur, fc.entry)
		for k, v := range fc.paramVars {
			se.vars[k] = v
		}
		for k, v := range fc.letVals {
			se.vars[k] = v
		}
		// locals defined in a block that strictly dominates the call (value locals only; parameters and lets win)
		if fc.curBlock != nil {
			locals := map[string]Val{}
			for _, dr := range fc.debugRefs {
				id, ok := dr.Expr.(*ast.Ident)
				if dr.IsAddr || !ok || dr.Block() == fc.curBlock || !dr.Block().Dominates(fc.curBlock) {
					continue
				}
				if v, ok := fc.env[dr.X]; ok && v.Loc == nil {
					locals[id.Name] = v // a later dominating definition replaces an earlier one
				}
			}
			for k, v := range locals {
				if _, taken := se.vars[k]; !taken {
					se.vars[k] = v
				}
			}
			// locals that live in memory (address-taken, e.g. filled by binary.Read): their current content
			for _, b := range fc.fn.Blocks {
				if !(b == fc.curBlock || b.Dominates(fc.curBlock)) {
					continue
				}
				for _, ins := range b.Instrs {
					a, ok := ins.(*ssa.Alloc)
					if !ok || a.Comment == "" || strings.Contains(a.Comment, " ") {
						continue
					}
					if _, taken := se.vars[a.Comment]; taken {
						continue
					}
					if v, ok := fc.env[a]; ok {
						if l, err := fc.derefLoc(v); err == nil && l.Kind != locObj {
							if lv, err := fc.loadAt(fc.cur, l); err == nil {
								se.vars[a.Comment] = Val{T: lv, S: fc.vc.sortOf(l.Typ), Typ: l.Typ}
							}
						}
					}
				}
			}
			// a local of the function that has no definition before this call (the lemma is shared by several
			// call sites) is an arbitrary value of its type here
			var allRefs []*ssa.DebugRef
			for _, b := range fc.fn.Blocks {
				for _, ins := range b.Instrs {
					if dr, ok := ins.(*ssa.DebugRef); ok {
						allRefs = append(allRefs, dr)
					}
				}
			}
			for _, dr := range allRefs {
				id, ok := dr.Expr.(*ast.Ident)
				if dr.IsAddr || !ok {
					continue
				}
				if _, taken := se.vars[id.Name]; taken {
					continue
				}
				srt := fc.vc.sortOf(dr.X.Type())
				if srt != SInt && srt != SBool {
					continue
				}
				fc.vc.nfresh++
				n := fmt.Sprintf("undef.%s!%d", smtIdent(id.Name), fc.vc.nfresh)
				fc.vc.declare(n, string(srt))
				se.vars[id.Name] = Val{T: n, S: srt, Typ: dr.X.Type()}
			}
		}
		t, err := se.boolExpr(lm.Expr)
		if err != nil {
			return fmt.Errorf("%s: lemma: %v", lm.Pos, err)
		}
		fc.vc.oblige(&Obligation{Name: fc.uniq(fmt.Sprintf("%s/lemma[%s]@before:%s", shortName(fc.fn), clauseLabel(lm.Clause, i), shortCallee(callee.String()))), Kind: "lemma",
			Props: lm.Tags, Func: shortName(fc.fn), Guard: fc.cur.reach, Goal: t, Desc: lm.Src})
		fc.vc.curKind = 'L'
		fc.vc.assume(fc.cur.reach, t)
		fc.vc.curKind = 0
		fc.vc.hasLemmas = true
	}
	return nil
}
