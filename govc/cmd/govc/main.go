package main

import (
	"fmt"
	"golang.org/x/tools/go/packages"
	"golang.org/x/tools/go/ssa"
	"golang.org/x/tools/go/ssa/ssautil"
)

var _ = packages.Load
var _ = ssa.BuilderMode(0)
var _ = ssautil.AllPackages

func main() { fmt.Println("govc") }
