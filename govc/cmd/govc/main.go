package main

import (
	"encoding/json"
	"flag"
	"fmt"
	"os"
	"path/filepath"
	"regexp"
	"sort"
	"strconv"
	"strings"
	"sync"
	"time"
)

type KnownFinding struct {
	Property   string `json:"property"`
	Obligation string `json:"obligation"` // regular expression on the obligation name
	Witness    string `json:"witness"`
	What       string `json:"what"`
	Status     string `json:"status"` // open | fixed
	Commit     string `json:"commit,omitempty"`
}

type KnownFile struct {
	Findings []KnownFinding `json:"findings"`
}

func main() {
	if len(os.Args) < 2 {
		fmt.Fprintln(os.Stderr, "usage: govc check|dump|list ...")
		os.Exit(2)
	}
	switch os.Args[1] {
	case "check":
		os.Exit(cmdCheck(os.Args[2:]))
	case "dump":
		os.Exit(cmdDump(os.Args[2:]))
	case "list":
		os.Exit(cmdList(os.Args[2:]))
	case "paths":
		p, err := load("/repo")
		if err != nil {
			fmt.Println(err)
			os.Exit(3)
		}
		for _, c := range p.Cons.ByFunc {
			if c.Trusted || !strings.Contains(shortName(c.Fn), os.Args[2]) {
				continue
			}
			fc := &FnCtx{fn: c.Fn}
			fc.analyseLoops()
			order, _ := fc.topoOrder()
			cnt := map[int]int{c.Fn.Blocks[0].Index: 1}
			for _, b := range order {
				for _, s := range b.Succs {
					if !fc.isBackEdge(b, s) {
						cnt[s.Index] += cnt[b.Index]
					}
				}
				if len(b.Succs) == 0 {
					fmt.Printf("%s block %d (%s): %d paths\n", shortName(c.Fn), b.Index, b.Comment, cnt[b.Index])
				}
			}
		}
		os.Exit(0)
	}
	fmt.Fprintln(os.Stderr, "unknown command")
	os.Exit(2)
}

func load(repo string) (*Program, error) {
	p, err := loadProgram(repo, []string{"./...", "github.com/tokenized/pkg/bitcoin", "github.com/tokenized/pkg/wire"})
	if err != nil {
		return nil, err
	}
	if err := p.loadContracts(); err != nil {
		return nil, err
	}
	return p, nil
}

func hasProp(props []string, p string) bool {
	for _, x := range props {
		if x == p {
			return true
		}
	}
	return false
}

func cmdList(args []string) int {
	fs := flag.NewFlagSet("list", flag.ExitOnError)
	repo := fs.String("repo", "/repo", "repository")
	fs.Parse(args)
	p, err := load(*repo)
	if err != nil {
		fmt.Fprintln(os.Stderr, "load:", err)
		return 3
	}
	var names []string
	for _, c := range p.Cons.ByFunc {
		names = append(names, fmt.Sprintf("%-60s trusted=%v props=%v", shortName(c.Fn), c.Trusted, c.props()))
	}
	sort.Strings(names)
	for _, n := range names {
		fmt.Println(n)
	}
	return 0
}

func cmdDump(args []string) int {
	fs := flag.NewFlagSet("dump", flag.ExitOnError)
	repo := fs.String("repo", "/repo", "repository")
	fn := fs.String("func", "", "function (substring of short name)")
	obl := fs.String("obl", "", "obligation name substring to print as SMT")
	solve := fs.Bool("solve", false, "solve the obligations")
	timeout := fs.Int("timeout", 10, "solver timeout (s)")
	match := fs.String("match", "", "with -solve: only obligations whose name contains one of these |-separated substrings")
	fs.Parse(args)
	p, err := load(*repo)
	if err != nil {
		fmt.Fprintln(os.Stderr, "load:", err)
		return 3
	}
	scratch, _ := os.MkdirTemp(scratchBase(), "govc")
	defer os.RemoveAll(scratch)
	for _, c := range p.Cons.ByFunc {
		if c.Trusted || !strings.Contains(shortName(c.Fn), *fn) {
			continue
		}
		r := p.verifyFunction(c)
		fmt.Printf("== %s: err=%v\n", r.Name, r.Err)
		if r.VC == nil {
			continue
		}
		for _, w := range r.VC.warnings {
			fmt.Println("   warning:", w)
		}
		if *solve {
			stats := newSolveStats()
			sel := r.VC.obls
			if *match != "" {
				sel = nil
				for _, o := range r.VC.obls {
					for _, m := range strings.Split(*match, "|") {
						if strings.Contains(o.Name, m) {
							sel = append(sel, o)
							break
						}
					}
				}
			}
			solveAll(sel, solveOpts{timeoutS: *timeout, scratch: scratch, workers: 14}, stats)
		}
		for _, o := range r.VC.obls {
			fmt.Printf("   %-8s %-7s %5.2fs %s  %v\n", o.Kind, o.Status, o.Seconds, o.Name, o.Props)
			if *obl != "" && strings.Contains(o.Name, *obl) {
				fmt.Println("; splits:", strings.Join(o.Splits, " | "))
				o.lightMode = os.Getenv("GOVC_LIGHT") != ""
				fmt.Println(o.smtText(true))
				o.lightMode = false
				if o.Model != "" {
					fmt.Println(o.Model)
				}
			}
		}
	}
	return 0
}

func scratchBase() string {
	if d := os.Getenv("GOVC_SCRATCH"); d != "" {
		os.MkdirAll(d, 0o755)
		return d
	}
	d := "/var/tmp"
	if st, err := os.Stat(d); err != nil || !st.IsDir() {
		d = os.TempDir()
	}
	return d
}

func cmdCheck(args []string) int {
	fs := flag.NewFlagSet("check", flag.ExitOnError)
	repo := fs.String("repo", "/repo", "repository")
	prop := fs.String("prop", "", "property id")
	tier := fs.String("tier", "quick", "quick|thorough")
	evidence := fs.String("evidence", "", "evidence file to write")
	known := fs.String("known", "/verif/known_findings.json", "known findings file")
	replayDir := fs.String("replays", "/verif/replays", "directory for replay files")
	level := fs.String("level", "proof", "evidence level")
	extra := fs.String("extra", "", "JSON file with extra coverage keys (bounded stand-ins etc.) to merge")
	fs.Parse(args)
	start := time.Now()
	seed := 0
	if s := os.Getenv("VERIF_SEED"); s != "" {
		seed, _ = strconv.Atoi(s)
	}
	p, err := load(*repo)
	if err != nil {
		fmt.Println("UNDECIDED: cannot load repository or contracts:", err)
		return 3
	}
	// functions carrying the property
	var cons []*Contract
	for _, c := range p.Cons.ByFunc {
		if !c.Trusted && hasProp(c.props(), *prop) {
			cons = append(cons, c)
		}
	}
	sort.Slice(cons, func(i, j int) bool { return shortName(cons[i].Fn) < shortName(cons[j].Fn) })
	nStatic := 0
	for _, sc := range p.Cons.Static {
		if hasProp(sc.Tags, *prop) {
			nStatic++
		}
	}
	if len(cons) == 0 && nStatic == 0 {
		fmt.Printf("UNDECIDED: no function under contract carries property %s\n", *prop)
		return 3
	}
	results := make([]*FuncResult, len(cons))
	var wg sync.WaitGroup
	sem := make(chan struct{}, 8)
	for i, c := range cons {
		wg.Add(1)
		go func(i int, c *Contract) {
			defer wg.Done()
			sem <- struct{}{}
			results[i] = p.verifyFunction(c)
			<-sem
		}(i, c)
	}
	wg.Wait()
	undecided := 0
	var obls []*Obligation
	trusted := map[string]bool{}
	var warnings []string
	var funcs []string
	for _, r := range results {
		funcs = append(funcs, r.Name)
		if r.Err != nil {
			fmt.Printf("UNDECIDED: %s: %v\n", r.Name, r.Err)
			undecided++
			continue
		}
		for t := range r.VC.trusted {
			trusted[t] = true
		}
		warnings = append(warnings, r.VC.warnings...)
		for _, o := range r.VC.obls {
			if len(o.Props) == 0 || hasProp(o.Props, *prop) {
				obls = append(obls, o)
			}
		}
	}
	// whole-package static frame conditions
	var staticObls []*Obligation
	for _, sc := range p.Cons.Static {
		if hasProp(sc.Tags, *prop) {
			so := p.runStatic(sc)
			staticObls = append(staticObls, so)
			if so.Status == "error" {
				fmt.Printf("UNDECIDED: %s: %s\n", so.Name, so.Model)
				undecided++
			}
		}
	}
	scratch, _ := os.MkdirTemp(scratchBase(), "govc")
	defer os.RemoveAll(scratch)
	opts := solveOpts{timeoutS: 20, seed: seed, scratch: scratch, workers: 16}
	if *tier == "thorough" {
		opts.timeoutS = 60
		opts.allThree = true
	}
	stats := newSolveStats()
	solveAll(obls, opts, stats)
	obls = append(obls, staticObls...)

	// known findings
	var kf KnownFile
	if data, err := os.ReadFile(*known); err == nil {
		if err := json.Unmarshal(data, &kf); err != nil {
			fmt.Println("UNDECIDED: cannot parse known findings:", err)
			return 3
		}
	}
	discharged, nObl := 0, 0
	byKind := map[string]int{}
	bySolver := map[string]int{}
	var samples []map[string]interface{}
	violations := 0
	knownHits := 0
	unstable := 0
	var failed []*Obligation
	reachAll := map[string]int{}
	reachDead := map[string][]*Obligation{}
	for _, o := range obls {
		if o.Expect == "sat" {
			// vacuity canary: must NOT be provable. A single return whose path facts are contradictory may be dead
			// code under the precondition; a function none of whose returns is reachable proves nothing.
			if strings.Contains(o.Name, "/vacuity:reach@") {
				reachAll[o.Func]++
				if o.Status == "unsat" {
					reachDead[o.Func] = append(reachDead[o.Func], o)
				}
				continue
			}
			if o.Status == "unsat" {
				failed = append(failed, o)
			}
			continue
		}
		nObl++
		byKind[o.Kind]++
		if o.Status == "unsat" {
			discharged++
			bySolver[o.Solver]++
			if opts.allThree && o.Agree < 3 {
				unstable++
			}
			if len(samples) < 12 && (o.Kind == "post" || len(samples) < 4) {
				samples = append(samples, map[string]interface{}{"obligation": o.Name, "kind": o.Kind, "solver": o.Solver, "seconds": round3(o.Seconds), "smt_bytes": len(o.smtText(false)), "clause": o.Desc})
			}
			continue
		}
		failed = append(failed, o)
	}
	deadReturns := 0
	var excessDead []string
	deadAllowed := map[string]int{}
	for f, c := range p.Cons.ByFunc {
		deadAllowed[shortName(f)] = c.DeadReturns
	}
	for _, f := range sortedKeys(reachAll) {
		deadReturns += len(reachDead[f])
		// more returns proved unreachable than the contract declares as dead code (deadreturns N, default 0): the
		// facts on those paths contradict each other - an invariant, a callee's postcondition or an axiom is too strong
		if len(reachDead[f]) == reachAll[f] {
			failed = append(failed, reachDead[f][0])
		} else if len(reachDead[f]) > deadAllowed[f] {
			// not a verdict: a redundant check in the code has the same effect. Reported so that a contract that became
			// contradictory on some path (or code whose success path died) is looked at.
			fmt.Printf("WARNING: %s: %d returns are unreachable under the contract, %d declared (deadreturns): %s\n", f, len(reachDead[f]), deadAllowed[f], reachDead[f][0].Name)
			excessDead = append(excessDead, reachDead[f][0].Name)
		}
	}
	exit := 0
	for _, o := range failed {
		if o.Expect == "sat" {
			fmt.Printf("VACUOUS: %s: the contract's preconditions (or, for vacuity:reach, the invariants and axioms on every path to a return) are contradictory\n", o.Name)
			rp := writeReplay(*replayDir, *prop, o, "vacuity: requires unsatisfiable")
			fmt.Printf("VIOLATION property=%s replay=%s no-failing-input-found\n", *prop, rp)
			violations++
			exit = 1
			continue
		}
		matched := false
		for _, k := range kf.Findings {
			if k.Status != "open" || k.Property != *prop {
				continue
			}
			if re, err := regexp.Compile(k.Obligation); err == nil && re.MatchString(o.Name) {
				fmt.Printf("KNOWN-FINDING: property=%s %s [%s]\n", *prop, k.What, o.Name)
				matched = true
				knownHits++
				break
			}
		}
		if matched {
			continue
		}
		violations++
		exit = 1
		rp := writeReplay(*replayDir, *prop, o, "")
		suffix := " no-failing-input-found"
		if confirmed := tryReplay(p, *prop, o, rp); confirmed {
			suffix = ""
		}
		fmt.Printf("FAILED: %s (%s by %s): %s\n", o.Name, o.Status, o.Solver, o.Desc)
		fmt.Printf("VIOLATION property=%s replay=%s%s\n", *prop, rp, suffix)
	}
	if undecided > 0 && exit == 0 {
		exit = 3
	}
	wall := time.Since(start).Seconds()
	// evidence
	if *evidence != "" {
		var tb []string
		for t := range trusted {
			tb = append(tb, t)
		}
		sort.Strings(tb)
		sort.Strings(warnings)
		warnings = dedup(warnings)
		cov := map[string]interface{}{
			"obligations":              nObl,
			"discharged":               discharged,
			"checker_cmd":              fmt.Sprintf("/verif/bin/govc check -prop %s -tier %s (VC generation over go/ssa of /repo's working tree, tags=verif; solvers z3 4.8.12, z3-new 5.1.0, cvc5 1.0 raced per obligation, %ds each)", *prop, *tier, opts.timeoutS),
			"trusted_base":             tb,
			"functions_under_contract": funcs,
			"obligations_by_kind":      byKind,
			"discharged_by_solver":     bySolver,
			"solver_seconds":           roundMap(stats.seconds),
			"solver_queries":           stats.queries,
			"samples":                  samples,
			"known_findings_hit":       knownHits,
			"undecided_functions":      undecided,
			"generator_warnings":       warnings,
			"integer_model":            "int/int64 mathematical (no overflow modelled); uint8/16/32/64 and int8/16/32 wrap modulo 2^N",
			"vacuity_checks":           len(obls) - nObl,
			"returns_proved_unreachable": deadReturns,
			"undeclared_unreachable_returns": excessDead,
		}
		if opts.allThree {
			cov["unstable_obligations"] = unstable
		}
		if *extra != "" {
			if data, err := os.ReadFile(*extra); err == nil {
				var ex map[string]interface{}
				if json.Unmarshal(data, &ex) == nil {
					for k, v := range ex {
						cov[k] = v
					}
				}
			}
		}
		if *level == "other" {
			if _, ok := cov["explanation"]; !ok {
				cov["explanation"] = "proof obligations discharged by SMT plus bounded stand-ins reported under separate keys"
			}
		}
		assumptions := append([]string{}, p.Cons.Assumed...)
		sort.Strings(assumptions)
		ev := map[string]interface{}{
			"property_id": *prop,
			"tier":        *tier,
			"seed":        seed,
			"level":       *level,
			"coverage":    cov,
			"assumptions": append(assumptions, tb...),
			"wall_s":      round3(wall),
			"violations":  violations,
		}
		data, _ := json.MarshalIndent(ev, "", " ")
		os.MkdirAll(filepath.Dir(*evidence), 0o755)
		if err := os.WriteFile(*evidence, data, 0o644); err != nil {
			fmt.Println("cannot write evidence:", err)
			return 3
		}
	}
	fmt.Printf("property %s: %d/%d obligations discharged over %d functions (%d known-finding hits, %d undecided functions) in %.1fs\n",
		*prop, discharged, nObl, len(cons), knownHits, undecided, wall)
	return exit
}

func dedup(xs []string) []string {
	var out []string
	for i, x := range xs {
		if i == 0 || x != xs[i-1] {
			out = append(out, x)
		}
	}
	return out
}

func round3(x float64) float64 { return float64(int(x*1000+0.5)) / 1000 }

func roundMap(m map[string]float64) map[string]float64 {
	out := map[string]float64{}
	for k, v := range m {
		out[k] = round3(v)
	}
	return out
}

var fileSafe = regexp.MustCompile(`[^A-Za-z0-9_.\-]+`)

func writeReplay(dir, prop string, o *Obligation, note string) string {
	d := filepath.Join(dir, prop)
	os.MkdirAll(d, 0o755)
	name := fileSafe.ReplaceAllString(o.Name, "_")
	if len(name) > 150 {
		name = name[:150]
	}
	path := filepath.Join(d, name+".json")
	model := o.Model
	if len(model) > 200000 {
		model = model[:200000] + "\n...truncated"
	}
	rec := map[string]interface{}{
		"property":      prop,
		"obligation":    o.Name,
		"kind":          o.Kind,
		"clause":        o.Desc,
		"function":      o.Func,
		"solver":        o.Solver,
		"solver_status": o.Status,
		"solver_output": model,
		"note":          note,
	}
	data, _ := json.MarshalIndent(rec, "", " ")
	os.WriteFile(path, data, 0o644)
	return path
}

// tryReplay attempts to confirm a failed obligation on the real code. Implemented per replay family in replay.go.
func tryReplay(p *Program, prop string, o *Obligation, replayPath string) bool {
	return replayObligation(p, prop, o, replayPath)
}
