package main

import (
	"fmt"
	"go/ast"
	"go/types"

	"golang.org/x/tools/go/ssa"
)

// Byte-stream model (C14, C15, C20): every io.Reader value r has a ghost counter consumed(r); a tee reader
// forwards what is read through it to its source reader and to its destination writer (a threads.WriteCounter
// counts it). Tee chains are followed to depth 3 (stated in the trusted base).

const (
	ghConsumed = "GH.consumed"
	ghCount    = "GH.count"
	ghTeeSrc   = "GH.teeSrc"
	ghTeeDst   = "GH.teeDst"
)

func (fc *FnCtx) ghArr(name string) string { return fc.getComp(name, arraySort("Int")) }

// readBytes: k bytes are read from reader x (and therefore from everything below it in the tee chain).
const ghFailed = "GH.failed"

// readBytes: k bytes are read from reader x (and therefore from everything below it in the tee chain); fail is an
// Int term (0/1): 1 if the read operation returned an error, which marks the whole chain as failed (the connection
// is no longer usable: framing claims are conditional on no failed read).
func (fc *FnCtx) readBytes(x, k string) { fc.readBytesF(x, k, "0") }

func (fc *FnCtx) readBytesF(x, k, fail string) {
	fc.vc.trust("io readers: consumed(r) counts bytes read; io.TeeReader/threads.NewReadCloser forward reads to their source (and count them in a threads.WriteCounter destination); chains deeper than 3 are not followed")
	src := fc.ghArr(ghTeeSrc)
	dst := fc.ghArr(ghTeeDst)
	cur := x
	guard := "true"
	for depth := 0; depth < 4; depth++ {
		cons := fc.ghArr(ghConsumed)
		fc.setComp(ghConsumed, arraySort("Int"), mkIte(guard, sto(cons, cur, mkAdd(sel(cons, cur), k)), cons))
		if fail != "0" {
			fl := fc.ghArr(ghFailed)
			fc.setComp(ghFailed, arraySort("Int"), mkIte(mkAnd(guard, mkEq(fail, "1")), sto(fl, cur, "1"), fl))
		}
		if depth == 3 {
			break
		}
		d := sel(dst, cur)
		cnt := fc.ghArr(ghCount)
		gd := mkAnd(guard, mkNot(mkEq(d, "0")))
		fc.vc.trust("threads.WriteCounter: the uint64 byte count of one message does not wrap (mathematical addition)")
		fc.setComp(ghCount, arraySort("Int"), mkIte(gd, sto(cnt, d, mkAdd(sel(cnt, d), k)), cnt))
		next := fc.vc.fresh("teesrc", "Int")
		fc.vc.assert(mkEq(next, sel(src, cur)))
		// tee readers are created after their source: the chain is acyclic (sources have smaller references)
		fc.vc.assert(mkImplies(mkNot(mkEq(next, "0")), "(and (< 0 "+next+") (< "+next+" "+cur+"))"))
		guard = mkAnd(guard, mkNot(mkEq(next, "0")))
		cur = next
	}
}

func sizeOfFixed(t types.Type) (int64, bool) {
	switch u := t.Underlying().(type) {
	case *types.Basic:
		switch u.Kind() {
		case types.Uint8, types.Int8, types.Bool:
			return 1, true
		case types.Uint16, types.Int16:
			return 2, true
		case types.Uint32, types.Int32, types.Float32:
			return 4, true
		case types.Uint64, types.Int64, types.Float64:
			return 8, true
		}
	case *types.Array:
		n, ok := sizeOfFixed(u.Elem())
		return n * u.Len(), ok
	case *types.Struct:
		var sum int64
		for i := 0; i < u.NumFields(); i++ {
			n, ok := sizeOfFixed(u.Field(i).Type())
			if !ok {
				return 0, false
			}
			sum += n
		}
		return sum, true
	}
	return 0, false
}

// readInto: a read of exactly `size` bytes on success, fewer on failure; returns the error value.
func (fc *FnCtx) readOp(reader Val, size string, tag string) (errT string, k string) {
	fc.vc.declareFun("cause", []string{"Int"}, "Int")
	k = fc.vc.fresh("nread."+tag, "Int")
	e := fc.newRef()
	errT = fc.vc.fresh("rerr."+tag, "Int")
	fc.vc.assert("(and (<= 0 " + k + ") (<= " + k + " " + size + "))")
	fc.vc.assert(mkEq(errT, mkIte(mkEq(k, size), "0", e)))
	fc.vc.assert(mkEq("(cause "+e+")", e))
	fc.readBytesF(reader.T, k, mkIte(mkEq(k, size), "0", "1"))
	return errT, k
}

func init() {
	builtinModels["io.ReadFull"] = func(fc *FnCtx, c *ssa.CallCommon, args []Val, rt types.Type) (*Val, error) {
		r, buf := args[0], args[1]
		ln := proj("s-len", buf.T)
		errT, k := fc.readOp(r, ln, "full")
		// buffer content becomes arbitrary bytes
		bt := buf.Typ.Underlying().(*types.Slice).Elem()
		comp := elemComp(bt)
		srt := arraySort(arraySort("Int"))
		E := fc.getComp(comp, srt)
		na := fc.vc.fresh("readbuf", arraySort("Int"))
		fc.vc.nfresh++
		q := fmt.Sprintf("q!rb!%d", fc.vc.nfresh)
		lo := proj("s-off", buf.T)
		fc.vc.assert("(forall ((" + q + " Int)) (! (and (<= 0 (select " + na + " " + q + ")) (< (select " + na + " " + q + ") 256) (=> (or (< " + q + " " + lo + ") (>= " + q + " (+ " + lo + " " + ln + "))) (= (select " + na + " " + q + ") (select " + sel(E, proj("s-arr", buf.T)) + " " + q + ")))) :pattern ((select " + na + " " + q + "))))")
		fc.setComp(comp, srt, sto(E, proj("s-arr", buf.T), na))
		tup := rt.(*types.Tuple)
		return &Val{Typ: rt, Tup: []Val{{T: k, S: SInt, Typ: tup.At(0).Type()}, {T: errT, S: SInt, Typ: tup.At(1).Type()}}}, nil
	}
	builtinMods["io.ReadFull"] = []string{ghConsumed, ghCount, ghFailed, "E.byte", "E.uint8"}

	builtinModels["encoding/binary.Read"] = func(fc *FnCtx, c *ssa.CallCommon, args []Val, rt types.Type) (*Val, error) {
		mi, ok := c.Args[2].(*ssa.MakeInterface)
		if !ok {
			return nil, unsupportedf("binary.Read with a dynamic data argument")
		}
		ptr, err := fc.val(mi.X)
		if err != nil {
			return nil, err
		}
		pt, ok := mi.X.Type().Underlying().(*types.Pointer)
		if !ok {
			return nil, unsupportedf("binary.Read into non-pointer %s", mi.X.Type())
		}
		size, ok := sizeOfFixed(pt.Elem())
		if !ok {
			return nil, unsupportedf("binary.Read into %s: not a fixed-size type", pt.Elem())
		}
		errT, _ := fc.readOp(args[0], fmt.Sprintf("%d", size), "bin")
		l, err := fc.derefLoc(ptr)
		if err != nil {
			return nil, err
		}
		nv := fc.symbolic("binval", pt.Elem())
		if err := fc.store(l, nv); err != nil {
			return nil, err
		}
		if b, ok := pt.Elem().Underlying().(*types.Basic); ok && b.Info()&types.IsInteger != 0 {
			// the last integer decoded from a reader is visible to specifications as ghostv("lastint", r)
			fc.setComp("GH.lastint", arraySort("Int"), sto(fc.ghArr("GH.lastint"), args[0].T, nv.T))
		}
		return &Val{T: errT, S: SInt, Typ: rt}, nil
	}
	builtinMods["encoding/binary.Read"] = []string{ghConsumed, ghCount, ghFailed, "GH.lastint", "*"}

	builtinModels["encoding/binary.Write"] = func(fc *FnCtx, c *ssa.CallCommon, args []Val, rt types.Type) (*Val, error) {
		fc.vc.trust("writers (bytes.Buffer, net.Conn) are not modelled: writes return an arbitrary error and change no modelled state")
		v := fc.symbolic("werr", rt)
		return &v, nil
	}
	builtinModels["io.TeeReader"] = func(fc *FnCtx, c *ssa.CallCommon, args []Val, rt types.Type) (*Val, error) {
		r := fc.newRef()
		for _, g := range []struct{ comp, v string }{{ghTeeSrc, args[0].T}, {ghTeeDst, args[1].T}, {ghConsumed, "0"}, {ghFailed, "0"}} {
			fc.setComp(g.comp, arraySort("Int"), sto(fc.ghArr(g.comp), r, g.v))
		}
		return &Val{T: r, S: SInt, Typ: rt}, nil
	}
	builtinMods["io.TeeReader"] = []string{ghTeeSrc, ghTeeDst, ghConsumed, ghFailed}
	builtinModels["github.com/tokenized/threads.NewReadCloser"] = func(fc *FnCtx, c *ssa.CallCommon, args []Val, rt types.Type) (*Val, error) {
		r := fc.newRef()
		for _, g := range []struct{ comp, v string }{{ghTeeSrc, args[0].T}, {ghTeeDst, "0"}, {ghConsumed, "0"}, {ghFailed, "0"}} {
			fc.setComp(g.comp, arraySort("Int"), sto(fc.ghArr(g.comp), r, g.v))
		}
		return &Val{T: r, S: SInt, Typ: rt}, nil
	}
	builtinMods["github.com/tokenized/threads.NewReadCloser"] = []string{ghTeeSrc, ghTeeDst, ghConsumed, ghFailed}
	builtinModels["github.com/tokenized/threads.NewWriteCounter"] = func(fc *FnCtx, c *ssa.CallCommon, args []Val, rt types.Type) (*Val, error) {
		r := fc.newRef()
		fc.setComp(ghCount, arraySort("Int"), sto(fc.ghArr(ghCount), r, "0"))
		return &Val{T: r, S: SInt, Typ: rt}, nil
	}
	builtinMods["github.com/tokenized/threads.NewWriteCounter"] = []string{ghCount}
	builtinModels["(*github.com/tokenized/threads.WriteCounter).Count"] = func(fc *FnCtx, c *ssa.CallCommon, args []Val, rt types.Type) (*Val, error) {
		n := fc.vc.fresh("count", "Int")
		fc.vc.assert(mkEq(n, sel(fc.ghArr(ghCount), args[0].T)))
		fc.vc.assume(fc.cur.reach, intRange(rt, n))
		return &Val{T: n, S: SInt, Typ: rt}, nil
	}
	newReader := func(fc *FnCtx, c *ssa.CallCommon, args []Val, rt types.Type) (*Val, error) {
		r := fc.newRef()
		for _, g := range []struct{ comp, v string }{{ghTeeSrc, "0"}, {ghTeeDst, "0"}, {ghConsumed, "0"}, {ghFailed, "0"}} {
			fc.setComp(g.comp, arraySort("Int"), sto(fc.ghArr(g.comp), r, g.v))
		}
		return &Val{T: r, S: SInt, Typ: rt}, nil
	}
	builtinModels["bytes.NewBuffer"] = newReader
	builtinModels["bytes.NewReader"] = newReader
	builtinModels["github.com/tokenized/threads.NewWaitingBuffer"] = newReader
	for _, n := range []string{"bytes.NewBuffer", "bytes.NewReader", "github.com/tokenized/threads.NewWaitingBuffer"} {
		builtinMods[n] = []string{ghTeeSrc, ghTeeDst, ghConsumed, ghFailed}
	}
	// fixed-size decoders of the dependency: consume exactly N bytes on success, fewer on failure; assumed not to panic
	fixedDecode := func(size int64, note string) builtinModel {
		return func(fc *FnCtx, c *ssa.CallCommon, args []Val, rt types.Type) (*Val, error) {
			fc.vc.trust(note)
			errT, _ := fc.readOp(args[1], fmt.Sprintf("%d", size), "dec")
			recv := args[0]
			l, err := fc.derefLoc(recv)
			if err != nil {
				return nil, err
			}
			nv := fc.symbolic("decoded", l.Typ)
			if err := fc.store(l, nv); err != nil {
				return nil, err
			}
			return &Val{T: errT, S: SInt, Typ: rt}, nil
		}
	}
	builtinModels["(*github.com/tokenized/pkg/wire.BlockHeader).Deserialize"] = fixedDecode(80, "wire.BlockHeader.Deserialize consumes exactly 80 bytes on success (fewer on failure), sets all six fields to arbitrary values and does not panic")
	builtinMods["(*github.com/tokenized/pkg/wire.BlockHeader).Deserialize"] = []string{ghConsumed, ghCount, ghFailed, "*"}
	builtinModels["(*github.com/tokenized/pkg/bitcoin.Hash32).Deserialize"] = fixedDecode(32, "bitcoin.Hash32.Deserialize consumes exactly 32 bytes on success and does not panic")
	builtinMods["(*github.com/tokenized/pkg/bitcoin.Hash32).Deserialize"] = []string{ghConsumed, ghCount, ghFailed, "*"}
	builtinModels["(*github.com/tokenized/pkg/wire.MsgTx).Deserialize"] = func(fc *FnCtx, c *ssa.CallCommon, args []Val, rt types.Type) (*Val, error) {
		fc.vc.trust("wire.MsgTx.Deserialize consumes some bytes of its reader, fills the transaction with arbitrary values and does not panic (dependency decoder trusted)")
		k := fc.vc.fresh("txbytes", "Int")
		fc.vc.assert("(<= 0 " + k + ")")
		v := fc.symbolic("txerr", rt)
		fc.readBytesF(args[1].T, k, mkIte(mkEq(v.T, "0"), "0", "1"))
		return &v, nil
	}
	builtinMods["(*github.com/tokenized/pkg/wire.MsgTx).Deserialize"] = []string{ghConsumed, ghCount, ghFailed}
	inlineDeps["github.com/tokenized/pkg/wire.ReadVarInt"] = true
	inlineDeps["github.com/tokenized/pkg/wire.ReadVarIntN"] = true
	builtinModels["(*github.com/tokenized/pkg/wire.MsgTx).SerializeSize"] = modelOpaque
	builtinModels["github.com/tokenized/pkg/wire.messageError"] = modelErrNew
	builtinModels["(*github.com/tokenized/pkg/wire.MessageHeader).CommandString"] = modelOpaque
	builtinModels["(github.com/tokenized/pkg/wire.MessageHeader).CommandString"] = modelOpaque
}

var _ = ast.Inspect
