package main

import (
	"fmt"
	"go/ast"
	"go/token"
	"go/types"
	"os"
	"sort"
	"strings"
	"sync"

	"golang.org/x/tools/go/packages"
	"golang.org/x/tools/go/ssa"
	"golang.org/x/tools/go/ssa/ssautil"
)

// Program is the loaded repository: typed ASTs, SSA and the contract table.
type Program struct {
	Fset     *token.FileSet
	Pkgs     []*packages.Package
	SSA      *ssa.Program
	SSAPkgs  map[string]*ssa.Package  // by package path
	Funcs    map[string]*ssa.Function // by canonical name (see funcKey)
	RepoDir  string
	RepoPkgs map[string]bool // package paths that belong to the repository under verification
	Cons     *ContractTable

	immutableGlobals map[*ssa.Global]bool
	globalsOnce      sync.Once
}

const repoModule = "github.com/tokenized/bitcoin_reader"

func loadProgram(dir string, patterns []string) (*Program, error) {
	fset := token.NewFileSet()
	cfg := &packages.Config{
		Mode: packages.NeedName | packages.NeedFiles | packages.NeedCompiledGoFiles | packages.NeedImports |
			packages.NeedDeps | packages.NeedTypes | packages.NeedSyntax | packages.NeedTypesInfo | packages.NeedTypesSizes | packages.NeedModule,
		Dir:        dir,
		Fset:       fset,
		BuildFlags: []string{"-tags=verif"},
		Env:        append(os.Environ(), "GOFLAGS=-mod=mod", "GOPROXY=off", "GOSUMDB=off", "GOTOOLCHAIN=local"),
		ParseFile:  nil,
	}
	pkgs, err := packages.Load(cfg, patterns...)
	if err != nil {
		return nil, err
	}
	nerr := 0
	packages.Visit(pkgs, nil, func(p *packages.Package) {
		for _, e := range p.Errors {
			if strings.HasPrefix(p.PkgPath, repoModule) {
				fmt.Fprintf(os.Stderr, "load error: %s: %v\n", p.PkgPath, e)
				nerr++
			}
		}
	})
	if nerr > 0 {
		return nil, fmt.Errorf("%d load errors in repository packages", nerr)
	}
	prog, spkgs := ssautil.AllPackages(pkgs, ssa.GlobalDebug)
	prog.Build()
	p := &Program{Fset: fset, Pkgs: pkgs, SSA: prog, SSAPkgs: map[string]*ssa.Package{}, Funcs: map[string]*ssa.Function{},
		RepoDir: dir, RepoPkgs: map[string]bool{}}
	_ = spkgs
	for _, sp := range prog.AllPackages() {
		p.SSAPkgs[sp.Pkg.Path()] = sp
		if strings.HasPrefix(sp.Pkg.Path(), repoModule) {
			p.RepoPkgs[sp.Pkg.Path()] = true
		}
	}
	for fn := range ssautil.AllFunctions(prog) {
		if fn.Pkg == nil && fn.Parent() == nil && fn.Synthetic == "" {
			continue
		}
		p.Funcs[funcKey(fn)] = fn
	}
	return p, nil
}

// funcKey is the canonical full name of a function: fn.String() ("pkgpath.Name", "(*pkgpath.T).M", "(pkgpath.T).M",
// "pkgpath.F$1" for closures).
func funcKey(fn *ssa.Function) string { return fn.String() }

// shortName renders a function name relative to the repository module, for obligation names.
func shortName(fn *ssa.Function) string {
	s := fn.String()
	s = strings.ReplaceAll(s, repoModule+"/", "")
	s = strings.ReplaceAll(s, repoModule+".", "bitcoin_reader.")
	s = strings.ReplaceAll(s, "github.com/tokenized/pkg/", "")
	return s
}

// resolveFuncName maps a name written in a contract file (relative to pkg) to the canonical key.
func (p *Program) resolveFuncName(pkgPath, name string) (*ssa.Function, error) {
	name = strings.TrimSpace(name)
	cands := []string{name}
	// relative forms: "(*Branch).Add", "(Branches).Longest", "Branches.Longest", "NewBranch"
	if strings.HasPrefix(name, "(*") {
		cands = append(cands, "(*"+pkgPath+"."+name[2:])
	} else if strings.HasPrefix(name, "(") {
		cands = append(cands, "("+pkgPath+"."+name[1:])
	} else {
		cands = append(cands, pkgPath+"."+name)
		if i := strings.Index(name, "."); i > 0 && !strings.Contains(name, "/") {
			cands = append(cands, "("+pkgPath+"."+name[:i]+")"+name[i:], "(*"+pkgPath+"."+name[:i]+")"+name[i:])
		}
	}
	for _, c := range cands {
		if fn, ok := p.Funcs[c]; ok {
			return fn, nil
		}
	}
	return nil, fmt.Errorf("function %q not found (tried %v)", name, cands)
}

func (p *Program) pkgByPath(path string) *packages.Package {
	var res *packages.Package
	packages.Visit(p.Pkgs, func(q *packages.Package) bool {
		if q.PkgPath == path {
			res = q
		}
		return res == nil
	}, nil)
	return res
}

// scanGlobals decides which package-level variables are never stored to outside package initialisers.
func (p *Program) scanGlobals() {
	p.globalsOnce.Do(p.scanGlobalsOnce)
}

func (p *Program) scanGlobalsOnce() {
	p.immutableGlobals = map[*ssa.Global]bool{}
	written := map[*ssa.Global]bool{}
	addrTaken := map[*ssa.Global]bool{}
	for _, fn := range p.Funcs {
		isInit := fn.Name() == "init" || strings.HasPrefix(fn.Name(), "init#")
		for _, b := range fn.Blocks {
			for _, ins := range b.Instrs {
				if st, ok := ins.(*ssa.Store); ok {
					if g, ok := st.Addr.(*ssa.Global); ok && !isInit {
						written[g] = true
					}
				}
				// address escaping: global used as operand of anything other than load/store address
				var ops []*ssa.Value
				ops = ins.Operands(ops)
				for _, op := range ops {
					if op == nil || *op == nil {
						continue
					}
					g, ok := (*op).(*ssa.Global)
					if !ok {
						continue
					}
					switch x := ins.(type) {
					case *ssa.UnOp:
						if x.Op == token.MUL {
							continue
						}
					case *ssa.Store:
						if x.Addr == g {
							continue
						}
					case *ssa.DebugRef:
						continue
					case *ssa.FieldAddr, *ssa.IndexAddr:
						// interior address of a global struct/array: treat as escaping
					}
					addrTaken[g] = true
				}
			}
		}
	}
	for _, sp := range p.SSA.AllPackages() {
		for _, m := range sp.Members {
			if g, ok := m.(*ssa.Global); ok {
				if !written[g] && !addrTaken[g] {
					p.immutableGlobals[g] = true
				}
			}
		}
	}
}

func (p *Program) isImmutableGlobal(g *ssa.Global) bool {
	p.scanGlobals()
	return p.immutableGlobals[g]
}

// sortedKeys is a small helper for deterministic iteration.
func sortedKeys[V any](m map[string]V) []string {
	ks := make([]string, 0, len(m))
	for k := range m {
		ks = append(ks, k)
	}
	sort.Strings(ks)
	return ks
}

var _ = ast.Inspect
var _ = types.Typ
