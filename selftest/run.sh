#!/bin/sh
# usage: run.sh [name-pattern]  -- applies each must-fail patch to a scratch copy of /repo and expects a VIOLATION
export GOFLAGS=-mod=mod GOPROXY=off GOSUMDB=off GOTOOLCHAIN=local
pat="${1:-.}"
sc=/var/tmp/selftest.$$
trap 'rm -rf "$sc"' EXIT
ok=0; bad=0
for p in /verif/selftest/patches/*.diff; do
  n=$(basename "$p" .diff)
  echo "$n" | grep -q "$pat" || continue
  prop=$(cat "/verif/selftest/patches/$n.prop")
  rm -rf "$sc"; mkdir -p "$sc"; cp -r /repo "$sc/repo"
  if ! (cd "$sc/repo" && patch -p1 -s < "$p"); then echo "PATCH-FAILED $n"; bad=$((bad+1)); continue; fi
  if ! (cd "$sc/repo" && go build ./... 2>/dev/null); then echo "NOBUILD $n"; bad=$((bad+1)); continue; fi
  out=$(/verif/bin/govc check -repo "$sc/repo" -prop "$prop" -tier quick -known /verif/known_findings.json -replays "$sc/replays" 2>&1)
  if echo "$out" | grep -q "^VIOLATION property=$prop"; then echo "caught   $n ($prop): $(echo "$out" | grep '^FAILED' | head -1 | cut -c1-150)"; ok=$((ok+1));
  else echo "MISSED   $n ($prop): $(echo "$out" | tail -1)"; bad=$((bad+1)); fi
done
echo "selftest: $ok caught, $bad missed/failed"
[ "$bad" = 0 ]
