#!/bin/sh
# usage: mk.sh <name> <property> <file> <python-expr operating on s>   -- creates selftest/patches/<name>.diff from /repo
name="$1"; prop="$2"; file="$3"; expr="$4"
tmp=$(mktemp -d /var/tmp/mk.XXXXXX)
cp "/repo/$file" "$tmp/orig"
python3 - "$tmp/orig" "$tmp/new" "$expr" <<'PY'
import sys
s=open(sys.argv[1]).read()
o=s
exec(sys.argv[3])
assert s!=o, "mutation did not change the file"
open(sys.argv[2],'w').write(s)
PY
[ -f "$tmp/new" ] || { echo "failed $name"; rm -rf "$tmp"; exit 1; }
(cd "$tmp" && diff -u orig new | sed "1s#.*#--- a/$file#;2s#.*#+++ b/$file#") > "/verif/selftest/patches/$name.diff"
echo "$prop" > "/verif/selftest/patches/$name.prop"
rm -rf "$tmp"
echo "made $name"
