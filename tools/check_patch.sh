#!/bin/sh
# usage: check_patch.sh <patch.diff> <prop> [<prop> ...]  - applies a patch to a scratch copy of /repo and runs the quick
# checks of the listed properties against it; prints exit code and last line per property.
export GOFLAGS=-mod=mod GOPROXY=off GOSUMDB=off GOTOOLCHAIN=local
patch="$1"; shift
sc=/var/tmp/chkpatch.$$; rm -rf "$sc"; mkdir -p "$sc"; cp -r /repo "$sc/repo"
(cd "$sc/repo" && git apply "$patch") || { echo "patch does not apply: $patch"; rm -rf "$sc"; exit 2; }
(cd "$sc/repo" && go build ./...) || { echo "does not build: $patch"; rm -rf "$sc"; exit 2; }
for p in "$@"; do
  out=$(VERIF_REPO="$sc/repo" VERIF_EVIDENCE="$sc" VERIF_REPLAYS="$sc/replays" /verif/check "$p" quick 2>&1 | grep -v "^info"); rc=$?
  v=$(echo "$out" | grep -c "^VIOLATION"); u=$(echo "$out" | grep -c "^UNDECIDED")
  echo "$(basename $patch) $p violations=$v undecided=$u : $(echo "$out" | grep '^FAILED\|^UNDECIDED' | head -1 | cut -c1-140)"
done
rm -rf "$sc"
