#!/usr/bin/env python3
"""Regenerates /verif/MANIFEST.json from the table below (claimed properties) - keeps the schema valid."""
import json, subprocess
CLAIMED = {
 # id: (technique, level text, level note)
}
import os, sys
sys.path.insert(0, os.path.dirname(__file__))
from manifest_table import CLAIMED, NOT_APPLICABLE
ids = [f"C{i:02d}" for i in range(1, 21)]
hooks = subprocess.run(["git", "-C", "/repo", "log", "--format=%h %s"], capture_output=True, text=True).stdout.splitlines()
hook_commits = [l.split()[0] for l in hooks if " verif hook" in l]
checks = []
for i in ids:
    if i in CLAIMED:
        tech, text, note, cat = CLAIMED[i]
        checks.append({
            "property_id": i,
            "quick_cmd": f"/verif/check {i} quick",
            "thorough_cmd": f"/verif/check {i} thorough",
            "evidence_file": f"/verif/evidence/{i}.json",
            "replay_cmd_template": "/verif/check --replay {path}",
            "engine": "govc",
            "level_claimed": {"category": cat, "text": text, "design_ref": f"DESIGN.md section 6 ({i}) and section 10"},
            "level_note": note,
            "technique": tech,
        })
na = []
for i in ids:
    if i not in CLAIMED:
        na.append({"property_id": i, "reason": NOT_APPLICABLE.get(i, "contracts for this property are not built yet; nothing is claimed")})
m = {
 "version": 1,
 "setup_cmd": "cd /verif/govc && GOFLAGS=-mod=vendor GOPROXY=off GOSUMDB=off GOTOOLCHAIN=local go build -o /verif/bin/govc ./cmd/govc",
 "hooks": {"guard": "verif", "enable": "go/packages load with -tags=verif; the hook files (*/contracts_verif.go) are comment-only //go:build verif files holding the //@ contracts",
           "baseline_off_cmd": "cd /repo && GOFLAGS=-mod=mod GOPROXY=off GOSUMDB=off go test -vet=off -count=1 -timeout 25m ./...",
           "source_commits": hook_commits, "add_only": True},
 "engines": [{"name": "govc", "path": "/verif/govc", "serves_properties": sorted(CLAIMED.keys()),
              "kind_free_text": "verification-condition generator over go/ssa of /repo's working tree (Boogie-style passive DAG encoding, typed heap, loop cuts at invariants, modular calls by contract); obligations discharged by z3 4.8.12 / z3 5.1.0 / cvc5 1.0"}],
 "checks": checks,
 "not_applicable": na,
 "notes": "Contract-based deductive verification of the real code: contracts live in /repo/**/contracts_verif.go (build tag verif), obligations are regenerated from the working tree on every run. fix: commits in /repo are recorded in /verif/known_findings.json.",
}
json.dump(m, open("/verif/MANIFEST.json", "w"), indent=1)
print("claimed:", sorted(CLAIMED.keys()))
