#!/bin/sh
# usage: recheck_seeds.sh [name-substring]   - applies every /verif/seeded/*/patch.diff to a scratch copy of /repo and runs
# the property's quick check against it; prints caught/MISSED per seed. RECHECK_JOBS seeds run at a time (default 3;
# solver timeouts are CPU-time limits, so verdicts do not depend on the load). Scratch copies are removed afterwards.
export GOFLAGS=-mod=mod GOPROXY=off GOSUMDB=off GOTOOLCHAIN=local
one() {
  d="$1"; name=$(basename "$d"); prop=$(echo "$name" | cut -c1-3)
  sc=/var/tmp/recheck.$$.$name; rm -rf "$sc"; mkdir -p "$sc"; cp -r /repo "$sc/repo"
  if ! (cd "$sc/repo" && git apply "$d/patch.diff") 2>/dev/null; then echo "$name: patch does not apply"; rm -rf "$sc"; return; fi
  out=$(VERIF_REPO="$sc/repo" VERIF_EVIDENCE="$sc" VERIF_REPLAYS="$sc/replays" /verif/check "$prop" quick 2>&1 | grep -v "^info")
  n=$(echo "$out" | grep -c "^VIOLATION property=$prop")
  first=$(echo "$out" | grep "^FAILED\|^VACUOUS" | head -1 | cut -c1-160)
  if [ "$n" -gt 0 ]; then echo "caught  $name ($n): $first"; else echo "MISSED  $name: $(echo "$out" | tail -1 | cut -c1-120)"; fi
  rm -rf "$sc"
}
if [ "$1" = "--one" ]; then one "$2"; exit 0; fi
# RECHECK_PROPS: optional regular expression over property ids (e.g. 'C0[4-6]|C1[3469]') to restrict the run
ls -d /verif/seeded/*${1}*/ | grep -E "/(${RECHECK_PROPS:-C[0-9][0-9]})-" | xargs -P "${RECHECK_JOBS:-3}" -n 1 "$0" --one
