#!/bin/sh
# usage: recheck_seeds.sh [name-substring]   - applies every /verif/seeded/*/patch.diff to a scratch copy of /repo and runs
# the property's quick check against it; prints caught/MISSED per seed. Scratch copy is removed afterwards.
export GOFLAGS=-mod=mod GOPROXY=off GOSUMDB=off GOTOOLCHAIN=local
sc=/var/tmp/recheck.$$; rm -rf "$sc"; mkdir -p "$sc"
for d in /verif/seeded/*${1}*/; do
  name=$(basename "$d"); prop=$(echo "$name" | cut -c1-3)
  rm -rf "$sc/repo"; cp -r /repo "$sc/repo"
  (cd "$sc/repo" && git apply "$d/patch.diff") || { echo "$name: patch does not apply"; continue; }
  out=$(VERIF_REPO="$sc/repo" VERIF_EVIDENCE="$sc" VERIF_REPLAYS="$sc/replays" /verif/check "$prop" quick 2>&1 | grep -v "^info")
  n=$(echo "$out" | grep -c "^VIOLATION property=$prop")
  first=$(echo "$out" | grep "^FAILED" | head -1 | cut -c1-160)
  if [ "$n" -gt 0 ]; then echo "caught  $name ($n): $first"; else echo "MISSED  $name: $(echo "$out" | tail -1 | cut -c1-120)"; fi
done
rm -rf "$sc"
