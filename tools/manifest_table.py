PROOF = "proof"
CLAIMED = {
 "C01": ("contract-based deductive verification (own VC generator over go/ssa, SMT)",
         "Function contracts on Branches.Longest, Branch.IsLonger/Add/AtHeight, NewBranch and Repository.ProcessHeader; the repository invariant with R-max (reported tip has maximal accumulated work among all held tips) is a postcondition of ProcessHeader at every return, for all inputs and heap shapes; every obligation is discharged by an SMT solver on each run.",
         "Trusted: math/big as mathematical integers, ConvertToWork >= 1 (axiom), BlockHash uninterpreted, clean()/consolidate assumed to preserve the invariant (trusted contract), sync.Mutex exclusion; int arithmetic mathematical. Save/Load/Clean orchestration and arrival-order independence are not decided.", PROOF),
 "C19": ("contract-based deductive verification (own VC generator over go/ssa, SMT)",
         "removeDuplicateHashes is verified against 'no element equals its predecessor, first element kept, never longer' with a loop invariant, for slices of any length.",
         "Trusted: Hash32.Equal is value equality. Locator construction (Branch/Repository.GetLocatorHashes) not yet under contract.", PROOF),
}
NOT_APPLICABLE = {
 "C11": "Save-then-Load equivalence is a relation between two runs through an external byte store; it needs a store abstraction function and functional contracts for ~600 lines of serialisation/merging beyond the generator's subset; no per-function contract within reach expresses it.",
 "C12": "Quantifies over prefixes of the storage write sequence of Clean/Save and Load's behaviour on each resulting store; needs the same store abstraction as C11 plus a loadable-invariant per write; not expressible with the contracts in reach.",
}
