PROOF = "proof"
CLAIMED = {
 "C01": ("contract-based deductive verification (own VC generator over go/ssa, SMT)",
         "Function contracts on Branches.Longest, Branch.IsLonger/Add/AtHeight, NewBranch and Repository.ProcessHeader; the repository invariant with R-max (reported tip has maximal accumulated work among all held tips) is a postcondition of ProcessHeader at every return, for all inputs and heap shapes; every obligation is discharged by an SMT solver on each run.",
         "Trusted: math/big as mathematical integers, ConvertToWork >= 1 (axiom), BlockHash uninterpreted, clean()/consolidate assumed to preserve the invariant (trusted contract), sync.Mutex exclusion; int arithmetic mathematical. Save/Load/Clean orchestration and arrival-order independence are not decided.", PROOF),
 "C02": ("contract-based deductive verification (own VC generator over go/ssa, SMT)",
         "ProcessHeader's verdict rows for work and bits (undecodable bits refused, hash above target refused, bits must equal the difficulty algorithm's value from height 556767, acceptance implies all of these) are postconditions checked at every return; Branch.Target is verified against a specification of the network's DAA (signed span clamped to [72,288]*600, cap at MaxWork), MedianTimeAndWork against the reference three-compare sorting network (sort.Sort executed as 3-element insertion sort with the real Less/Swap), TimeAndWork against the ancestry function; bitcoin.ConvertToDifficulty (dependency source) is checked for index panics on the full uint32 domain.",
         "Trusted: arithmetic of ConvertToWork/ConvertToBits and the hash-vs-target comparison are uninterpreted functions shared by code and specification; the reference DAA and sorting network are transcribed from the reference implementation; math/big as mathematical integers; 'every header of the real chain is accepted' is not decided against chain data.", PROOF),
 "C08": ("contract-based deductive verification (own VC generator over go/ssa, SMT)",
         "The verdict table of ProcessHeader (bad bits, not enough work, orphan split header, after genesis, unknown parent, already known, split height rules, DAA bits, marked invalid, too deep) is a set of postconditions over the entry state, checked at each of its 18 returns, together with the refusal frame: any error return that is not the post-acceptance notification failure leaves every allocated heap cell unchanged; a duplicate returns nil with the same frame.",
         "Trusted: Branch lookups are specified by the recursive spec functions findH/anc (their agreement with storage-backed lookups is not decided); clean() assumed to preserve the invariant; the notification-failure return after acceptance is exempted from the frame (it is not a refusal; its reachability is not decided).", PROOF),
 "C19": ("contract-based deductive verification (own VC generator over go/ssa, SMT)",
         "removeDuplicateHashes is verified against 'no element equals its predecessor, first element kept, never longer' with a loop invariant, for slices of any length.",
         "Trusted: Hash32.Equal is value equality. Locator construction (Branch/Repository.GetLocatorHashes) not yet under contract.", PROOF),
}
NOT_APPLICABLE = {
 "C11": "Save-then-Load equivalence is a relation between two runs through an external byte store; it needs a store abstraction function and functional contracts for ~600 lines of serialisation/merging beyond the generator's subset; no per-function contract within reach expresses it.",
 "C12": "Quantifies over prefixes of the storage write sequence of Clean/Save and Load's behaviour on each resulting store; needs the same store abstraction as C11 plus a loadable-invariant per write; not expressible with the contracts in reach.",
}
