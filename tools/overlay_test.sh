#!/bin/sh
# usage: overlay_test.sh <repo-dir> <package-dir-relative> <test-file> <run-regexp>
# Runs an in-package test against the repository without writing into it (go test -overlay).
export GOFLAGS=-mod=mod GOPROXY=off GOSUMDB=off GOTOOLCHAIN=local
repo="$1"; pkg="$2"; file="$3"; run="$4"
tmp=$(mktemp -d /var/tmp/ovl.XXXXXX) || exit 3
trap 'rm -rf "$tmp"' EXIT
cp "$file" "$tmp/zz_overlay_test.go"
dest="$repo/$pkg/zz_overlay_test.go"
[ "$pkg" = "." ] && dest="$repo/zz_overlay_test.go"
printf '{"Replace": {"%s": "%s"}}\n' "$dest" "$tmp/zz_overlay_test.go" > "$tmp/ov.json"
cd "$repo" && ulimit -v 8000000 && go test -overlay "$tmp/ov.json" -vet=off -count=1 -timeout ${OVL_TIMEOUT:-120s} -run "$run" "./$pkg"
