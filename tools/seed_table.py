#!/usr/bin/env python3
# Regenerates the seed table of DESIGN.md section 10.5 from /verif/seeded/*/meta.json.
import json, glob, os, re
root = os.path.dirname(os.path.dirname(os.path.abspath(__file__)))
rows = []
late = bounded = 0
for d in sorted(glob.glob(root + "/seeded/*/")):
    m = json.load(open(d + "meta.json"))
    r = m["check_result"].replace("|", "/")
    if re.search(r"MISSED|UNDECIDED|missed when first harvested", r): late += 1
    if "bounded" in r and "only" in r: bounded += 1
    rows.append("| %s | %s |" % (os.path.basename(d.rstrip("/")), r))
p = root + "/DESIGN.md"
s = open(p).read()
a = s.index("| seed | caught by |")
b = a
lines = s[a:].split("\n")
n = 0
for l in lines:
    if l.startswith("|"): n += 1
    else: break
end = a + len("\n".join(lines[:n]))
s = s[:a] + "| seed | caught by |\n|------|-----------|\n" + "\n".join(rows) + s[end:]
s = re.sub(r"all \d+\nare caught at the time of writing, \d+ of them only after the checks were strengthened",
           "all %d\nare caught at the time of writing, %d of them only after the checks were strengthened" % (len(rows), late), s)
open(p, "w").write(s)
print(len(rows), "seeds,", late, "caught only after strengthening")
