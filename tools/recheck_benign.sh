#!/bin/sh
# usage: recheck_benign.sh  - applies every behaviour-preserving refactor in /verif/benign to a scratch copy of /repo and
# runs the quick checks of the properties listed for it in /verif/benign/PROPS: none may report a violation.
bad=0
while read f props; do
  out=$(/verif/tools/check_patch.sh /verif/benign/$f $props 2>&1); echo "$out"
  echo "$out" | grep -qv "violations=0 undecided=0" && bad=$((bad+1))
done < /verif/benign/PROPS
echo "benign refactors with an alarm or an undecided function: $bad"
[ "$bad" = 0 ]
