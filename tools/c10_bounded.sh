#!/bin/sh
# usage: c10_bounded.sh <repo> <tier> <extra-json-out> <replay-dir>
# Bounded stand-in for C10 (clean/consolidate/prune are outside the contract verifier's reach): runs
# /verif/bounded/c10_clean_test.go inside package headers of <repo> via `go test -overlay` (nothing is written into
# the repository). Exit 0 = no difference found within the bound, 1 = difference (replay file written), 3 = harness
# did not run.
export GOFLAGS=-mod=mod GOPROXY=off GOSUMDB=off GOTOOLCHAIN=local
repo="$1"; tier="$2"; extra="$3"; replays="$4"
n=5; two=0; depth=3; to=300s
if [ "$tier" = "thorough" ]; then n=6; two=0; to=1500s; fi
out=$(mktemp /var/tmp/c10out.XXXXXX) || exit 3
log=$(mktemp /var/tmp/c10log.XXXXXX) || exit 3
trap 'rm -f "$out" "$log"' EXIT
status=0
for cfg in "$n $depth $two" "5 2 1"; do
  set -- $cfg
  C10_N=$1 C10_DEPTH=$2 C10_TWO=$3 C10_OUT="$out.part" OVL_TIMEOUT=$to /verif/tools/overlay_test.sh "$repo" headers /verif/bounded/c10_clean_test.go Test_VerifBounded_C10 > "$log" 2>&1
  rc=$?
  if [ ! -s "$out.part" ]; then echo "C10 bounded harness did not run:"; grep -v '^{\|^info' "$log" | tail -5; rm -f "$out.part"; exit 3; fi
  cat "$out.part" >> "$out"; rm -f "$out.part"
  [ $rc -ne 0 ] && status=1
done
python3 - "$out" "$extra" "$status" <<'PY'
import json,sys,re
lines=[l.rstrip('\n') for l in open(sys.argv[1]) if l.strip()]
runs=sum(int(m.group(1)) for l in lines for m in [re.search(r'runs=(\d+)',l)] if m)
failing=sum(int(m.group(1)) for l in lines for m in [re.search(r'failing=(\d+)',l)] if m)
summ=[l for l in lines if l.startswith('C10 bounded:')]
diffs=[l for l in lines if '||' in l]
json.dump({"explanation":"per-function contracts (Branch.add, Prune, Truncate, Connect: height map describes the slice) are discharged by SMT; clean()/consolidate()/prune() themselves are NOT under contract: a BOUNDED differential run of the real code stands in for them (never counted as proved)",
 "bounded_standin":{"function":"Repository.clean = consolidate + saveMainBranch + prune(depth) + saveInvalidHashes, run in-package with a caller-chosen prune depth",
   "bound":summ,"oracle":"twin repository with the same submissions and no maintenance; compared after every step: tip (by hash, or equal work on ties), Height, Hash(h) and Header(h) for every height, HashHeight/CheckHeader/PreviousHash for every accepted header, accept/refuse of every later submission",
   "histories_run":runs,"histories_with_difference":failing,"differences":diffs[:10],"exhaustive_within_bound":True}},open(sys.argv[2],'w'))
PY
if [ $status -ne 0 ]; then
  mkdir -p "$replays/C10"; cp "$out" "$replays/C10/bounded_clean.txt"
  grep '||' "$out" | head -5
  echo "VIOLATION property=C10 replay=$replays/C10/bounded_clean.txt"
fi
exit $status
