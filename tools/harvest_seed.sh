#!/bin/sh
# usage: harvest_seed.sh <worktree> <property-id> <seed-name> <pkgdir(. or headers)>
# Copies a sub-agent's change into /verif/seeded/<seed-name>/, confirms it independently in a scratch copy
# (builds, existing suite passes, demo fails with / passes without), then runs the property's check against it.
export GOFLAGS=-mod=mod GOPROXY=off GOSUMDB=off GOTOOLCHAIN=local
wt="$1"; prop="$2"; name="$3"; pkg="$4"
dst=/verif/seeded/$name; mkdir -p "$dst"
(cd "$wt" && git diff -- . ':!contracts_verif.go' ':!headers/contracts_verif.go') > "$dst/patch.diff"
demo=$(cd "$wt" && git status --porcelain | grep '^??' | awk '{print $2}' | grep '_test.go' | head -1)
cp "$wt/$demo" "$dst/demo_test.go"
sc=/var/tmp/harvest.$$; rm -rf "$sc"; mkdir -p "$sc"; cp -r /repo "$sc/repo"
log="$dst/confirm.log"; : > "$log"
run_demo() { # $1 = repo dir
  /verif/tools/overlay_test.sh "$1" "$pkg" "$dst/demo_test.go" '.' 2>&1 | grep -v '^{' | tail -15
}
echo "== demo on unchanged copy" >> "$log"; run_demo "$sc/repo" >> "$log"; base_ok=$(tail -3 "$log" | grep -c '^ok')
(cd "$sc/repo" && git apply "$dst/patch.diff") || { echo "patch does not apply" >> "$log"; }
echo "== build with change" >> "$log"; (cd "$sc/repo" && go build ./... ) >> "$log" 2>&1 && echo built >> "$log"
echo "== existing suite with change" >> "$log"; (cd "$sc/repo" && go test -vet=off -count=1 ./... 2>&1 | tail -5) >> "$log"
suite_ok=$(tail -4 "$log" | grep -c '^ok')
echo "== demo with change" >> "$log"; run_demo "$sc/repo" >> "$log"; demo_fail=$(tail -6 "$log" | grep -c 'FAIL')
echo "== check $prop against the change" >> "$log"
VERIF_REPO="$sc/repo" VERIF_EVIDENCE="$sc" VERIF_REPLAYS="$sc/replays" /verif/check "$prop" quick 2>&1 | grep -v "^info" | cut -c1-300 | tail -8 >> "$log"
caught=$(grep -c "^VIOLATION property=$prop" "$log")
rm -rf "$sc"
echo "$name: demo-passes-unchanged=$base_ok suite-ok-lines=$suite_ok demo-fails-with-change=$demo_fail caught=$caught"
