package bitcoin_reader

// Demonstration for C05 (found as the failing obligation synchronizeBlocks/inv-entry:loop2 "startHeight >=
// StartBlockHeight"): when the best tip is exactly at the configured start height and nothing is processed yet,
// the walk back steps one block below the start height before it checks the bound.

import (
	"context"
	"testing"
	"time"

	"github.com/tokenized/pkg/bitcoin"
)

type chainHeaders struct {
	*MockHeaderRepository
	hashes []bitcoin.Hash32 // index = height
}

func (c *chainHeaders) LastHash() bitcoin.Hash32 { return c.hashes[len(c.hashes)-1] }
func (c *chainHeaders) Height() int              { return len(c.hashes) - 1 }
func (c *chainHeaders) HashHeight(hash bitcoin.Hash32) int {
	for i, h := range c.hashes {
		if h.Equal(&hash) {
			return i
		}
	}
	return -1
}
func (c *chainHeaders) PreviousHash(hash bitcoin.Hash32) (*bitcoin.Hash32, int) {
	i := c.HashHeight(hash)
	if i <= 0 {
		return nil, -1
	}
	h := c.hashes[i-1]
	return &h, i - 1
}
func (c *chainHeaders) Hash(ctx context.Context, height int) (*bitcoin.Hash32, error) {
	h := c.hashes[height]
	return &h, nil
}

func Test_Demo_SyncNeverBelowStartHeight(t *testing.T) {
	ctx := context.Background()
	for _, tipAboveStart := range []int{0, 1, 3} {
		start := 5
		chain := &chainHeaders{MockHeaderRepository: NewMockHeaderRepository()}
		for i := 0; i <= start+tipAboveStart; i++ {
			var h bitcoin.Hash32
			h[0], h[1] = byte(i+1), 0xaa
			chain.hashes = append(chain.hashes, h)
		}
		config := &Config{StartBlockHeight: start}
		m := NewNodeManager("demo", config, chain, nil)
		btm := NewMockBlockTxManager()
		bm := NewBlockManager(btm, nil, 1, time.Second)
		m.SetBlockManager(btm, bm, nil)

		var heights []int
		done := make(chan error, 1)
		go func() { done <- m.synchronizeBlocks(ctx, make(chan interface{})) }()
	loop:
		for {
			select {
			case req := <-bm.requests:
				heights = append(heights, req.height)
				close(req.complete) // block processed
			case err := <-done:
				if err != nil {
					t.Fatalf("synchronizeBlocks : %s", err)
				}
				break loop
			case <-time.After(5 * time.Second):
				t.Fatalf("timeout")
			}
		}
		t.Logf("tip %d above start %d : requested heights %v", tipAboveStart, start, heights)
		for _, h := range heights {
			if h < start {
				t.Errorf("tip %d above start : block at height %d requested, below start height %d", tipAboveStart, h, start)
			}
		}
	}
}
