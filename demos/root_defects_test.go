package bitcoin_reader

// Demonstrations of the defects found by the contract checks in the root package (run with tools/overlay_test.sh).

import (
	"bytes"
	"context"
	"encoding/binary"
	"testing"

	"github.com/tokenized/pkg/storage"
	"github.com/tokenized/pkg/wire"
)

func demoLoadPeers(t *testing.T, data []byte) (repo *StoragePeerRepository, panicked interface{}) {
	ctx := context.Background()
	store := storage.NewMockStorage()
	store.Write(ctx, "peers", data, nil)
	repo = NewPeerRepository(store, "peers")
	func() {
		defer func() { panicked = recover() }()
		if err := repo.Load(ctx); err != nil {
			t.Logf("Load error: %s", err)
		}
	}()
	return repo, panicked
}

// C20/C15: a stored peers file with a negative count or a negative address size must not crash Load.
func Test_Demo_PeersLoadNegative(t *testing.T) {
	var buf bytes.Buffer
	binary.Write(&buf, binary.LittleEndian, uint8(0))
	binary.Write(&buf, binary.LittleEndian, int32(-1)) // count
	if _, p := demoLoadPeers(t, buf.Bytes()); p != nil {
		t.Errorf("Load panicked on count -1: %v", p)
	}

	buf.Reset()
	binary.Write(&buf, binary.LittleEndian, uint8(0))
	binary.Write(&buf, binary.LittleEndian, int32(1))  // count
	binary.Write(&buf, binary.LittleEndian, int32(-5)) // address size
	if _, p := demoLoadPeers(t, buf.Bytes()); p != nil {
		t.Errorf("Load panicked on address size -5: %v", p)
	}
}

// C20: each address is held once, also after loading a file that lists an address twice.
func Test_Demo_PeersLoadDuplicate(t *testing.T) {
	var buf bytes.Buffer
	binary.Write(&buf, binary.LittleEndian, uint8(0))
	binary.Write(&buf, binary.LittleEndian, int32(2))
	for i := 0; i < 2; i++ {
		p := &Peer{Address: "[::1]:8333", Score: int32(i), LastTime: 7}
		p.write(&buf)
	}
	repo, p := demoLoadPeers(t, buf.Bytes())
	if p != nil {
		t.Fatalf("panic: %v", p)
	}
	if repo.Count() != 1 {
		t.Errorf("address held %d times after Load", repo.Count())
	}
	list, _ := repo.Get(context.Background(), -100, -1)
	if len(list) != 1 {
		t.Errorf("Get returned the address %d times", len(list))
	}
}

// C15: an extended message declaring an enormous transaction length must not crash the process.
func Test_Demo_HugeDeclaredLength(t *testing.T) {
	defer func() {
		if r := recover(); r != nil {
			t.Errorf("readMessage panicked on a declared length of 2^62: %v", r)
		}
	}()
	header := &wire.MessageHeader{Length: 1 << 62}
	copy(header.Command[:], "extmsg")
	err := readMessage(bytes.NewReader([]byte{1, 2, 3}), header, &wire.MsgTx{})
	if err == nil {
		t.Errorf("no error for a truncated message")
	}
}
