package headers

// Demonstrations of the defects found by the contract checks (run with tools/overlay_test.sh; in-package).

import (
	"context"
	"math/big"
	"math/rand"
	"testing"

	"github.com/tokenized/pkg/bitcoin"
	"github.com/tokenized/pkg/storage"
	"github.com/tokenized/pkg/wire"
)

func demoRepo(t *testing.T) (*Repository, context.Context) {
	ctx := context.Background()
	repo := NewRepository(DefaultConfig(), storage.NewMockStorage())
	repo.DisableDifficulty()
	repo.InitializeWithTimeStamp(952644136)
	return repo, ctx
}

func demoHeader(prev bitcoin.Hash32, ts uint32) *wire.BlockHeader {
	h := &wire.BlockHeader{Version: 1, PrevBlock: prev, Timestamp: ts, Bits: 0x1d00ffff, Nonce: rand.Uint32()}
	rand.Read(h.MerkleRoot[:])
	return h
}

// C01/C07/C08: two sibling forks off the same height; the second overtakes the first.
func Test_Demo_SiblingForks(t *testing.T) {
	repo, ctx := demoRepo(t)
	main := MockHeaders(ctx, repo, repo.LastHash(), 952644136, 5)
	forkPoint := *main[1].BlockHash() // height 2
	// fork A: 5 headers off height 2 (tip 7) overtakes main (tip 5)
	prev := forkPoint
	for i := 0; i < 5; i++ {
		h := demoHeader(prev, 952650000+uint32(i))
		if err := repo.ProcessHeader(ctx, h); err != nil {
			t.Fatalf("fork A header %d: %s", i, err)
		}
		prev = *h.BlockHash()
	}
	// fork B: 7 headers off height 2 (tip 9) must overtake A
	prev = forkPoint
	var firstErr error
	for i := 0; i < 7; i++ {
		h := demoHeader(prev, 952660000+uint32(i))
		if err := repo.ProcessHeader(ctx, h); err != nil && firstErr == nil {
			firstErr = err
		}
		prev = *h.BlockHash()
	}
	if firstErr != nil {
		t.Errorf("a valid header of fork B was answered with an error: %s", firstErr)
	}
	if repo.Height() != 9 {
		t.Errorf("reported tip height %d, heaviest accepted chain has height 9", repo.Height())
	}
	if repo.LastHash() != prev {
		t.Errorf("reported tip is not the tip of the heaviest chain")
	}
}

// C02/C15: a bits field whose effective length is 1 must be refused, not crash the process.
func Test_Demo_BitsPanic(t *testing.T) {
	for _, bits := range []uint32{0x01010000, 0x02000100} {
		func() {
			defer func() {
				if r := recover(); r != nil {
					t.Errorf("ProcessHeader panicked for bits 0x%08x: %v", bits, r)
				}
			}()
			repo, ctx := demoRepo(t)
			repo.EnableDifficulty()
			h := demoHeader(repo.LastHash(), 952644736)
			h.Bits = bits
			if err := repo.ProcessHeader(ctx, h); err == nil {
				t.Errorf("header with bits 0x%08x accepted", bits)
			}
		}()
	}
}

// C19: removeDuplicateHashes must drop adjacent duplicates.
func Test_Demo_RemoveDuplicates(t *testing.T) {
	var a, b bitcoin.Hash32
	a[0], b[0] = 1, 2
	got := removeDuplicateHashes([]bitcoin.Hash32{a, a, b, b})
	if len(got) != 2 || got[0] != a || got[1] != b {
		t.Errorf("removeDuplicateHashes([a,a,b,b]) = %d elements, want [a b]", len(got))
	}
}

func demoChain(t *testing.T, times []uint32) (*Repository, context.Context) {
	repo, ctx := demoRepo(t)
	prev := repo.LastHash()
	for i, ts := range times {
		h := demoHeader(prev, ts)
		if err := repo.ProcessHeader(ctx, h); err != nil {
			t.Fatalf("header %d: %s", i, err)
		}
		prev = *h.BlockHash()
	}
	return repo, ctx
}

// C02: with equal timestamps the median of three must be the block the network's sorting network picks.
func Test_Demo_MedianTie(t *testing.T) {
	// heights 1,2,3 with times (5000, 5000, 3000): the network picks height 2 (h-1), a stable sort picks height 1
	repo, ctx := demoChain(t, []uint32{5000, 5000, 3000})
	_, work, err := repo.longest.MedianTimeAndWork(ctx, 3, 3)
	if err != nil {
		t.Fatal(err)
	}
	want := repo.longest.AtHeight(2).AccumulatedWork
	if work.Cmp(want) != 0 {
		t.Errorf("median of three picked accumulated work %s, the network's sorting network picks height 2 with %s", work.Text(16), want.Text(16))
	}
}

// C02: the time span is signed; a negative span is clamped to 72 blocks' worth, not 288.
func Test_Demo_NegativeTimeSpan(t *testing.T) {
	var times []uint32
	for i := 0; i < 150; i++ {
		times = append(times, uint32(2000000-i*600)) // strictly decreasing timestamps
	}
	repo, ctx := demoChain(t, times)
	height := 150
	target, err := repo.longest.Target(ctx, height)
	if err != nil {
		t.Fatal(err)
	}
	// reference: medians of strictly decreasing times are the middle blocks
	last := repo.longest.AtHeight(height - 2)
	first := repo.longest.AtHeight(height - 146)
	span := int64(last.Header.Timestamp) - int64(first.Header.Timestamp)
	if span >= 0 {
		t.Fatalf("test setup: span %d not negative", span)
	}
	span = 72 * 600
	w := new(big.Int).Sub(last.AccumulatedWork, first.AccumulatedWork)
	w.Mul(w, big.NewInt(600))
	w.Div(w, big.NewInt(span))
	want := bitcoin.ConvertToWork(w)
	if want.Cmp(bitcoin.MaxWork) > 0 {
		want.Set(bitcoin.MaxWork)
	}
	if target.Cmp(want) != 0 {
		t.Errorf("target %s, reference with signed time span %s", target.Text(16), want.Text(16))
	}
}

// C17: marking a known header invalid must remove it and its descendants from the reported chain; marking an
// unknown hash must only pre-empt it (and not crash).
func Test_Demo_MarkInvalid(t *testing.T) {
	repo, ctx := demoRepo(t)
	main := MockHeaders(ctx, repo, repo.LastHash(), 952644136, 6)
	bad := *main[3].BlockHash() // height 4
	if err := repo.MarkHeaderInvalid(ctx, bad); err != nil {
		t.Fatalf("mark: %s", err)
	}
	if repo.Height() != 3 {
		t.Errorf("after marking height 4 invalid the reported tip height is %d, want 3", repo.Height())
	}
	if h := repo.HashHeight(bad); h != -1 && repo.longest.Find(bad) != -1 {
		t.Errorf("marked header still found on the best branch at height %d", repo.longest.Find(bad))
	}
	if _, isLongest, err := repo.CheckHeader(ctx, *main[5].BlockHash()); err == nil && isLongest {
		t.Errorf("descendant of the marked header still reported in the most-work chain")
	}
	if err := repo.ProcessHeader(ctx, main[3]); err == nil {
		t.Errorf("marked header accepted again")
	}
	// unknown hash
	func() {
		defer func() {
			if r := recover(); r != nil {
				t.Errorf("MarkHeaderInvalid panicked on an unknown hash: %v", r)
			}
		}()
		var unknown bitcoin.Hash32
		unknown[5] = 7
		if err := repo.MarkHeaderInvalid(ctx, unknown); err != nil {
			t.Errorf("marking an unknown hash: %s", err)
		}
		h := demoHeader(repo.LastHash(), 952700000)
		_ = h
	}()
}

// C09/C18: after a reorg the ancestors of the tip that live in the old best branch are still in the most-work chain.
func Test_Demo_IsLongestAfterReorg(t *testing.T) {
	repo, ctx := demoRepo(t)
	main := MockHeaders(ctx, repo, repo.LastHash(), 952644136, 4)
	prev := *main[1].BlockHash() // fork off height 2
	for i := 0; i < 4; i++ {     // fork tip 6 > main tip 4
		h := demoHeader(prev, 952650000+uint32(i))
		if err := repo.ProcessHeader(ctx, h); err != nil {
			t.Fatalf("fork header %d: %s", i, err)
		}
		prev = *h.BlockHash()
	}
	if repo.LastHash() != prev {
		t.Fatalf("fork did not become the best chain")
	}
	// height 1 is an ancestor of the new tip
	height, isLongest, err := repo.CheckHeader(ctx, *main[0].BlockHash())
	if err != nil || height != 1 || !isLongest {
		t.Errorf("CheckHeader(ancestor of tip at height 1) = (%d, %v, %v), want (1, true, nil)", height, isLongest, err)
	}
	// height 3 of the old chain is no longer in the best chain
	height, isLongest, err = repo.CheckHeader(ctx, *main[2].BlockHash())
	if err != nil || height != 3 || isLongest {
		t.Errorf("CheckHeader(old chain height 3) = (%d, %v, %v), want (3, false, nil)", height, isLongest, err)
	}
}

// C17: marking the first header of the root branch must not crash the process.
func Test_Demo_MarkRootInvalid(t *testing.T) {
	repo, ctx := demoRepo(t)
	MockHeaders(ctx, repo, repo.LastHash(), 952644136, 3)
	root := repo.branches[0].AtHeight(0).Hash
	defer func() {
		if r := recover(); r != nil {
			t.Errorf("MarkHeaderInvalid(first header of the root branch) panicked: %v", r)
		}
	}()
	err := repo.MarkHeaderInvalid(ctx, root)
	t.Logf("MarkHeaderInvalid(root) = %v", err)
	if repo.Height() < 0 {
		t.Errorf("no chain left")
	}
}

// C09/C10: after Clean a third branch re-attached by Connect must report its headers at their true heights.
func Test_Demo_ConnectHeights(t *testing.T) {
	repo, ctx := demoRepo(t)
	main := MockHeaders(ctx, repo, repo.LastHash(), 952644136, 10)
	// fork A off height 5, 8 headers: becomes the best chain (tip 13)
	prev := *main[4].BlockHash()
	for i := 0; i < 8; i++ {
		h := demoHeader(prev, 952650000+uint32(i))
		if err := repo.ProcessHeader(ctx, h); err != nil {
			t.Fatalf("fork A %d: %s", i, err)
		}
		prev = *h.BlockHash()
	}
	// fork B off height 3, 3 headers at heights 4, 5, 6
	prev = *main[2].BlockHash()
	var forkB []*wire.BlockHeader
	for i := 0; i < 3; i++ {
		h := demoHeader(prev, 952660000+uint32(i))
		if err := repo.ProcessHeader(ctx, h); err != nil {
			t.Fatalf("fork B %d: %s", i, err)
		}
		forkB = append(forkB, h)
		prev = *h.BlockHash()
	}
	for i, h := range forkB {
		if got := repo.HashHeight(*h.BlockHash()); got != 4+i {
			t.Fatalf("before Clean: fork B header %d at height %d, want %d", i, got, 4+i)
		}
	}
	if err := repo.consolidate(ctx); err != nil {
		t.Fatalf("consolidate: %s", err)
	}
	for i, h := range forkB {
		if got := repo.HashHeight(*h.BlockHash()); got != 4+i {
			t.Errorf("after consolidate: fork B header %d reported at height %d, want %d", i, got, 4+i)
		}
	}
}
