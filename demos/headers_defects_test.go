package headers

// Demonstrations of the defects found by the contract checks (run with tools/overlay_test.sh; in-package).

import (
	"context"
	"math/rand"
	"testing"

	"github.com/tokenized/pkg/bitcoin"
	"github.com/tokenized/pkg/storage"
	"github.com/tokenized/pkg/wire"
)

func demoRepo(t *testing.T) (*Repository, context.Context) {
	ctx := context.Background()
	repo := NewRepository(DefaultConfig(), storage.NewMockStorage())
	repo.DisableDifficulty()
	repo.InitializeWithTimeStamp(952644136)
	return repo, ctx
}

func demoHeader(prev bitcoin.Hash32, ts uint32) *wire.BlockHeader {
	h := &wire.BlockHeader{Version: 1, PrevBlock: prev, Timestamp: ts, Bits: 0x1d00ffff, Nonce: rand.Uint32()}
	rand.Read(h.MerkleRoot[:])
	return h
}

// C01/C07/C08: two sibling forks off the same height; the second overtakes the first.
func Test_Demo_SiblingForks(t *testing.T) {
	repo, ctx := demoRepo(t)
	main := MockHeaders(ctx, repo, repo.LastHash(), 952644136, 5)
	forkPoint := *main[1].BlockHash() // height 2
	// fork A: 5 headers off height 2 (tip 7) overtakes main (tip 5)
	prev := forkPoint
	for i := 0; i < 5; i++ {
		h := demoHeader(prev, 952650000+uint32(i))
		if err := repo.ProcessHeader(ctx, h); err != nil {
			t.Fatalf("fork A header %d: %s", i, err)
		}
		prev = *h.BlockHash()
	}
	// fork B: 7 headers off height 2 (tip 9) must overtake A
	prev = forkPoint
	var firstErr error
	for i := 0; i < 7; i++ {
		h := demoHeader(prev, 952660000+uint32(i))
		if err := repo.ProcessHeader(ctx, h); err != nil && firstErr == nil {
			firstErr = err
		}
		prev = *h.BlockHash()
	}
	if firstErr != nil {
		t.Errorf("a valid header of fork B was answered with an error: %s", firstErr)
	}
	if repo.Height() != 9 {
		t.Errorf("reported tip height %d, heaviest accepted chain has height 9", repo.Height())
	}
	if repo.LastHash() != prev {
		t.Errorf("reported tip is not the tip of the heaviest chain")
	}
}

// C02/C15: a bits field whose effective length is 1 must be refused, not crash the process.
func Test_Demo_BitsPanic(t *testing.T) {
	for _, bits := range []uint32{0x01010000, 0x02000100} {
		func() {
			defer func() {
				if r := recover(); r != nil {
					t.Errorf("ProcessHeader panicked for bits 0x%08x: %v", bits, r)
				}
			}()
			repo, ctx := demoRepo(t)
			repo.EnableDifficulty()
			h := demoHeader(repo.LastHash(), 952644736)
			h.Bits = bits
			if err := repo.ProcessHeader(ctx, h); err == nil {
				t.Errorf("header with bits 0x%08x accepted", bits)
			}
		}()
	}
}

// C19: removeDuplicateHashes must drop adjacent duplicates.
func Test_Demo_RemoveDuplicates(t *testing.T) {
	var a, b bitcoin.Hash32
	a[0], b[0] = 1, 2
	got := removeDuplicateHashes([]bitcoin.Hash32{a, a, b, b})
	if len(got) != 2 || got[0] != a || got[1] != b {
		t.Errorf("removeDuplicateHashes([a,a,b,b]) = %d elements, want [a b]", len(got))
	}
}
