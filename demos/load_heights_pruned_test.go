package headers

// Demonstration for C09 (lookups by hash return the true height for headers restored from storage, also after they
// were pruned out of memory): load() records the in-memory part of a pruned main branch in the repository-wide
// height map starting at parentHeight+1 instead of at the branch's lowest held height. While those headers are in
// memory every lookup asks the branches first, so the wrong entries are invisible; once they are pruned out of memory
// the map is all that is left and HashHeight reports heights that are too low by the pruned amount.

import (
	"testing"

	"github.com/tokenized/bitcoin_reader/internal/platform/tests"
	"github.com/tokenized/pkg/bitcoin"
	"github.com/tokenized/pkg/storage"
	"github.com/tokenized/pkg/wire"
)

func Test_VerifDemo_HeightMapAfterLoadOfPrunedBranch(t *testing.T) {
	ctx := tests.Context()
	store := storage.NewMockStorage()
	repo := NewRepository(DefaultConfig(), store)
	repo.DisableDifficulty()
	repo.DisableSplitProtection()
	repo.InitializeWithTimeStamp(952644136)

	hashes := []bitcoin.Hash32{repo.LastHash()}
	extend := func(r *Repository, count int) {
		for i := 0; i < count; i++ {
			height := len(hashes)
			header := &wire.BlockHeader{Version: 1, PrevBlock: hashes[height-1], Timestamp: 952644136 + uint32(600*height),
				Bits: 0x1d00ffff, Nonce: uint32(height)}
			if err := r.ProcessHeader(ctx, header); err != nil {
				t.Fatalf("process header %d : %s", height, err)
			}
			hashes = append(hashes, *header.BlockHash())
		}
	}
	extend(repo, 2010) // tip 2010, third header file
	if err := repo.Save(ctx); err != nil {
		t.Fatalf("save : %s", err)
	}

	restored := NewRepository(DefaultConfig(), store)
	restored.DisableDifficulty()
	restored.DisableSplitProtection()
	if err := restored.load(ctx, 30); err != nil { // keeps 1980..2010 in memory
		t.Fatalf("load : %s", err)
	}
	for _, h := range []int{1985, 1999, 2000, 2005, 2010} {
		if got := restored.HashHeight(hashes[h]); got != h {
			t.Errorf("right after load : HashHeight(header %d) = %d", h, got)
		}
	}

	extend(restored, 60) // tip 2070
	restored.Lock()
	if err := restored.prune(ctx, 30); err != nil { // 2000..2010 leave memory
		t.Fatalf("prune : %s", err)
	}
	restored.Unlock()
	for _, h := range []int{1985, 1999, 2000, 2005, 2010, 2039, 2045, 2070} {
		if got := restored.HashHeight(hashes[h]); got != h {
			t.Errorf("after the restored headers were pruned out of memory : HashHeight(header %d) = %d", h, got)
		}
	}
}
