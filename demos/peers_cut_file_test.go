package bitcoin_reader

// Demonstration for C20 (a file cut short keeps every peer that was fully written before the cut): a peers file whose
// intact count is larger than the number of bytes left after the cut was refused as a whole ("Invalid peers count"),
// although complete peer records precede the cut. The guard had been introduced by the earlier repair of the
// negative-count panic (it bounded the allocation by refusing instead of by clamping).

import (
	"fmt"
	"testing"

	"github.com/tokenized/bitcoin_reader/internal/platform/tests"
	"github.com/tokenized/pkg/storage"
)

func Test_VerifDemo_PeersFileCutShortKeepsCompletePeers(t *testing.T) {
	ctx := tests.Context()
	store := storage.NewMockStorage()
	repo := NewPeerRepository(store, "")
	for i := 0; i < 60; i++ {
		if _, err := repo.Add(ctx, fmt.Sprintf("%02d", i)); err != nil {
			t.Fatalf("add : %s", err)
		}
	}
	if err := repo.Save(ctx); err != nil {
		t.Fatalf("save : %s", err)
	}
	saved, err := store.Read(ctx, repo.path)
	if err != nil {
		t.Fatalf("read : %s", err)
	}
	// version (1) + count (4) + records of 4 + 2 + 4 + 4 = 14 bytes each
	const record = 14
	for _, complete := range []int{1, 2, 3, 4} {
		cut := 5 + complete*record + 3 // three bytes into the next record
		cutStore := storage.NewMockStorage()
		if err := cutStore.Write(ctx, repo.path, saved[:cut], nil); err != nil {
			t.Fatalf("write : %s", err)
		}
		loaded := NewPeerRepository(cutStore, "")
		err := loaded.Load(ctx)
		if got := loaded.Count(); got != complete {
			t.Errorf("file of 60 peers cut at byte %d (%d complete records): kept %d peers, load error: %v", cut, complete, got, err)
		}
	}
}
